"""C16 — bundled AES modes / feeders / adapter: results depend neither on how the input is
split across calls nor on earlier calls on the same or another object.
E-hist: seeded histories of interleaved operations on a pool of mode objects, block
feeders, stream pumps (input stream with short reads) and shared adapter objects, each
object checked against RefAES applied to the concatenation of what it was fed."""
from sim import env, refaes
from sim.core import Outcome, exc_site, rbytes
from sim.simfs import SimByteStream

ID = "C16"
LEVEL = "exploration"
ENGINE = "E-hist"
TECHNIQUE = ("deterministic simulation: seeded interleaved call histories over pools of cipher-mode objects, block feeders, "
             "stream pumps fed by a short-reading stream stub, and reused/shared adapter objects; oracle = bit-level "
             "reference AES (FIPS-197 / SP 800-38A definitions) applied to each object's concatenated input")
DESIGN_REF = "DESIGN.md section 6, C16"
LEVEL_TEXT = ("seeded search over call histories (chunk splits, interleavings between objects, reuse of adapter objects, "
              "short reads); agreement with FIPS-197 over the key/block space is only sampled through the oracle "
              "(every block the histories produce), not the exhaustive table check the property text also mentions")
LEVEL_NOTE = ("claimed for the history- and stream-dependent clauses; RefAES validated against FIPS-197 App. C and "
              "SP 800-38A vectors and the openssl binary; calls the API rejects (wrong length for block modes) are no demand")
RUNS = {"quick": 4000, "thorough": 200000}
OPTIMIZED_PASS = {"quick": 250, "thorough": 6000}   # extra runs under PYTHONOPTIMIZE=1 (assert statements removed)
RULE = ("per run a history of 6-40 operations: create mode (ECB/CBC/CFB-s/OFB/CTR incl. counter wrap, key 16/24/32), "
        "direct mode calls, Encrypter/Decrypter feed with chunk sizes 0-100 and finish, stream pumps with read sizes 1..n "
        "and block_size 1..8192, adapter encrypt/decrypt/mac on reused objects; non-trivial = at least two objects were "
        "active in an interleaved way or an adapter object was reused; distinct = digests; evaluations = operations")
REAL = ["pyaes.aes (AES, all modes, Counter)", "pyaes.blockfeeder (Encrypter, Decrypter, stream pumps)", "pyaes.util",
        "register_crypto_plugin.AES128Proxy via bec2format.crypto.create_AES128"]
STUBS = ["input/output streams: SimByteStream (short reads)", "RefAES (bit-level reference)"]
PROBES = ["refused-call-then-continue", "runs-with-assertions-disabled", "ctr-default-counter", "adapter-input-64k-or-more", "shared-adapter-two-threads", "key-in-reused-buffer", "both-directions-on-one-object", "ctr-wrap", "cfb-partial-final-segment", "feeder-chunk-zero", "short-read", "adapter-reused",
          "adapter-trailing-zero-plaintext", "interleaved-objects", "key-24", "key-32", "pump-block-size-1",
          "decrypter-pkcs7"]
ASSUMPTIONS = ["sharing one *mode* object between two feeders has no defined result and is not generated"]

MODES = ["ecb", "cbc", "cfb", "ofb", "ctr"]


def gen(st, tier):
    w = st["workload"]
    if w.random() < 0.04:
        # two threads call one shared adapter object (each call is specified to be independent of any other)
        from sim import conc
        pre, ch = conc.sched_spec(st["schedule"])
        return {"conc": True, "key": rbytes(w, 16).hex(), "iv": rbytes(w, 16).hex() if w.random() < 0.5 else None,
                "calls": [[w.choice(["enc", "mac", "dec"]), rbytes(w, 16 * w.choice([1, 2, 3])).hex()] for _ in range(2)],
                "preempt": pre, "choices": ch}
    ops = []
    nobj = 0
    objs = []   # (id, kind, info)
    n = w.choice([6, 10, 16, 24, 40])
    for _ in range(n):
        r = w.random()
        live = [o for o in objs if not o.get("done")]
        if r < 0.25 or not live:
            kind = w.choice(["feeder", "feeder", "direct", "adapter", "pump", "raw"])
            key = rbytes(w, w.choice([16, 16, 24, 32])).hex()
            mode = w.choice(MODES)
            iv = rbytes(w, 16).hex() if w.random() < 0.8 else None
            seg = w.choice([1, 1, 2, 4, 8, 16, 3])
            ctr = w.choice([1, 0, (1 << 128) - 2, (1 << 128) - 1, w.getrandbits(128), "default", "default"])
            if kind == "adapter":
                o = {"id": nobj, "kind": "adapter", "key": rbytes(w, 16).hex(), "iv": iv}
            elif kind == "raw":
                # stateless objects used in both directions: the block cipher itself or an ECB mode object
                o = {"id": nobj, "kind": "raw", "key": key, "ecb": w.random() < 0.5}
            elif kind == "pump":
                data = rbytes(w, w.choice([0, 1, 15, 16, 17, 100, 500, 9000]))
                o = {"id": nobj, "kind": "pump", "mode": mode, "key": key, "iv": iv, "seg": seg, "ctr": str(ctr),
                     "dir": w.choice(["enc", "dec"]), "data": data.hex(),
                     "sizes": [w.choice([1, 2, 15, 16, 17, 64, 4096]) for _ in range(w.choice([0, 1, 3]))],
                     "bs": w.choice([1, 7, 16, 17, 64, 1000, 8192]), "done": True}
            else:
                o = {"id": nobj, "kind": kind, "mode": mode, "key": key, "iv": iv, "seg": seg, "ctr": str(ctr),
                     "dir": w.choice(["enc", "dec"]),
                     "pad": w.choice(["default", "default", "none"]) if mode in ("ecb", "cbc") else "default"}
            if kind != "adapter" and w.random() < 0.3:
                # the caller's key lives in a reusable buffer (bytearray) that is overwritten for the next key
                o["keybuf"] = w.randrange(2)
            objs.append(o)
            ops.append(["new", o])
            nobj += 1
            continue
        o = w.choice(live)
        if o["kind"] == "adapter":
            ln = w.choice([1, 5, 15, 16, 17, 32, 40])
            if w.random() < 0.004:
                ln = w.choice([65536, 65537, 65552, 70000])     # a firmware-sized buffer
            d = bytearray(rbytes(w, ln))
            if w.random() < 0.4:
                z = min(ln, w.choice([1, 2, 16]))
                d[ln - z:] = bytes(z)
            what = w.choice(["enc", "enc", "dec", "mac"])
            if what == "dec":
                d = d + bytes(-len(d) % 16)
            ops.append(["adapter", o["id"], what, bytes(d).hex()])
        elif o["kind"] == "raw":
            ops.append(["raw", o["id"], w.choice(["enc", "dec"])])
        elif o["kind"] == "feeder":
            if w.random() < 0.2:
                ops.append(["finish", o["id"]])
                o["done"] = True
            else:
                ops.append(["feed", o["id"], w.choice([0, 1, 3, 15, 16, 17, 31, 32, 33, 64, 100])])
        elif o["mode"] in ("ecb", "cbc") and w.random() < 0.15:
            # a call the block-mode object refuses (not one block); the caller goes on with complete blocks
            ops.append(["refused", o["id"], w.choice([0, 1, 15, 17, 31, 32])])
        else:
            ops.append(["direct", o["id"], w.choice([1, 2, 3, 5, 16, 32, 48])])
    for o in objs:
        if o["kind"] == "feeder" and not o.get("done"):
            ops.append(["finish", o["id"]])
    return {"ops": ops, "data": w.getrandbits(32)}


# ------------------------------------------------------------ reference ----
def _ref_stream(o, data, direction):
    """mode definition applied to `data` (already padded where the mode needs it)"""
    key = bytes.fromhex(o["key"])
    iv = bytes.fromhex(o["iv"]) if o["iv"] else bytes(16)
    m = o["mode"]
    if m == "ecb":
        return refaes.ecb_enc(key, data) if direction == "enc" else refaes.ecb_dec(key, data)
    if m == "cbc":
        return refaes.cbc_enc(key, iv, data) if direction == "enc" else refaes.cbc_dec(key, iv, data)
    if m == "cfb":
        s = o["seg"]
        padded = data + bytes(-len(data) % s)
        f = refaes.cfb_enc if direction == "enc" else refaes.cfb_dec
        return f(key, iv, padded, s)[:len(data)]
    if m == "ofb":
        return refaes.ofb(key, iv, data)
    return refaes.ctr(key, 1 if o["ctr"] == "default" else int(o["ctr"]), data)


def _pkcs7(data):
    p = 16 - len(data) % 16
    return data + bytes([p]) * p


_KEYBUFS = [bytearray(), bytearray()]


def _key_of(o):
    key = bytes.fromhex(o["key"])
    if o.get("keybuf") is None:
        return key
    buf = _KEYBUFS[o["keybuf"]]
    buf[:] = key            # same buffer object, new content
    return buf


def _make_mode(o):
    aes = env.pyaes.aes
    key = _key_of(o)
    iv = bytes.fromhex(o["iv"]) if o["iv"] else None
    m = o["mode"]
    if m == "ecb":
        return aes.AESModeOfOperationECB(key)
    if m == "cbc":
        return aes.AESModeOfOperationCBC(key, iv)
    if m == "cfb":
        return aes.AESModeOfOperationCFB(key, iv, o["seg"])        # iv None: the documented all-zero default
    if m == "ofb":
        return aes.AESModeOfOperationOFB(key, iv)
    if o["ctr"] == "default":
        return aes.AESModeOfOperationCTR(key)        # the documented default: a counter starting at 1
    return aes.AESModeOfOperationCTR(key, aes.Counter(int(o["ctr"])))


def _expected_feeder(o, total):
    """expected complete output of a feeder for the complete input `total`, or None when the
    API rejects this input (no demand)"""
    blockmode = o["mode"] in ("ecb", "cbc")
    if o["dir"] == "enc":
        if blockmode:
            if o["pad"] == "none":
                if len(total) % 16 or not total:
                    return None
                return _ref_stream(o, total, "enc")
            return _ref_stream(o, _pkcs7(total), "enc")
        return _ref_stream(o, total, "enc")
    # decrypt direction: `total` is ciphertext produced by the reference from a plaintext
    raise AssertionError


def _run_conc(case):
    from sim import conc
    out = Outcome()
    key = bytes.fromhex(case["key"])
    iv = bytes.fromhex(case["iv"]) if case["iv"] else None

    def make_bodies(s):
        shared = env.crypto.create_AES128(key, iv)

        def body(i):
            what, d = case["calls"][i]
            d = bytes.fromhex(d)

            def fn():
                return bytes({"enc": shared.encrypt, "mac": shared.mac, "dec": shared.decrypt}[what](d))
            return fn
        return [body(0), body(1)]
    try:
        dry, cc, pre = conc.run_conc(make_bodies, case["preempt"], case["choices"], first=0)
    finally:
        env.restore_registry()
    npre = sum(1 for d in cc.decisions if d[3] == "preempt")
    out.fired["preempt"] += npre
    out.nontrivial = npre > 0
    out.probes["shared-adapter-two-threads"] += 1
    out.ev("conc", tuple(cc.decisions), cc.aborted, [t.result.hex() if t.result else None for t in cc.threads])
    narrow = dict(case, preempt=[["abs", p] if isinstance(p, int) else list(p) for p in pre])
    if any(t.exc is not None for t in dry.threads):
        out.ev("sequential-raises")
        return out
    for i, t in enumerate(cc.threads):
        what, d = case["calls"][i]
        d = bytes.fromhex(d)
        if cc.aborted or t.exc is not None:
            out.fail("C16.concurrent", "raises", "thread %d: %s %r" % (i, cc.aborted, t.exc), narrow)
            continue
        z = iv or bytes(16)
        exp = {"enc": lambda: refaes.cbc_enc(key, z, refaes.zpad(d)), "mac": lambda: refaes.cbc_enc(key, z, refaes.zpad(d))[-16:],
               "dec": lambda: refaes.cbc_dec(key, z, d)}[what]()
        if t.result != exp:
            out.fail("C16.adapter-differs", "concurrent-" + what,
                     "thread %d: adapter.%s on an object shared with another thread returned %s, zero-padded CBC says %s "
                     "(schedule %s)" % (i, what, t.result.hex(), exp.hex(), cc.decisions), narrow)
    return out


def run(case):
    if case.get("conc"):
        return _run_conc(case)
    import random
    out = Outcome()
    env.restore_registry()
    blockfeeder = env.pyaes.blockfeeder
    rnd = random.Random(case["data"])
    st = {}
    _KEYBUFS[0][:] = b""
    _KEYBUFS[1][:] = b""
    last_obj = None
    switches = 0
    nops = 0
    try:
        for op in case["ops"]:
            nops += 1
            k = op[0]
            if k == "new":
                o = op[1]
                s = {"o": o, "inp": b"", "outp": b""}
                st[o["id"]] = s
                try:
                    if o["kind"] == "adapter":
                        s["obj"] = env.crypto.create_AES128(bytes.fromhex(o["key"]),
                                                            bytes.fromhex(o["iv"]) if o["iv"] else None)
                        s["calls"] = 0
                    elif o["kind"] == "direct":
                        s["obj"] = _make_mode(o)
                    elif o["kind"] == "raw":
                        k_ = _key_of(o)
                        s["obj"] = env.pyaes.aes.AESModeOfOperationECB(k_) if o["ecb"] else env.pyaes.aes.AES(k_)
                        s["ref"] = refaes.RefAES(bytes.fromhex(o["key"]))
                        s["calls"] = []
                    elif o["kind"] == "feeder":
                        mode = _make_mode(o)
                        if o["dir"] == "enc":
                            s["obj"] = blockfeeder.Encrypter(mode, padding=o["pad"])
                        else:
                            # ciphertext to feed: reference encryption of a plaintext chosen now
                            n = rnd.choice([0, 1, 15, 16, 17, 32, 47, 48, 100, 200])
                            if o["pad"] == "none" and o["mode"] in ("ecb", "cbc"):
                                n = max(16, n - n % 16)
                            pt = bytes(rnd.getrandbits(8) for _ in range(n))
                            if o["mode"] in ("ecb", "cbc"):
                                ct = _ref_stream(o, pt if o["pad"] == "none" else _pkcs7(pt), "enc")
                                if o["pad"] != "none":
                                    out.probes["decrypter-pkcs7"] += 1
                            else:
                                ct = _ref_stream(o, pt, "enc")
                            s["obj"] = blockfeeder.Decrypter(mode, padding=o["pad"])
                            s["todo"] = ct
                            s["expect"] = pt
                    elif o["kind"] == "pump":
                        _pump(out, o)
                except Exception as e:
                    out.fail("C16.create-raises", exc_site(e), "creating %s raised %s: %s" % (o, type(e).__name__, e))
                    return out
                if o.get("keybuf") is not None:
                    out.probes["key-in-reused-buffer"] += 1
                if len(o.get("key", "")) == 48:
                    out.probes["key-24"] += 1
                if len(o.get("key", "")) == 64:
                    out.probes["key-32"] += 1
                out.ev("new", o["id"], o["kind"], o.get("mode"))
                continue
            oid = op[1]
            s = st[oid]
            o = s["o"]
            if last_obj is not None and last_obj != oid:
                switches += 1
            last_obj = oid
            if k == "adapter":
                _, _, what, dh = op
                d = bytes.fromhex(dh)
                key = bytes.fromhex(o["key"])
                iv = bytes.fromhex(o["iv"]) if o["iv"] else bytes(16)
                s["calls"] += 1
                if s["calls"] >= 2:
                    out.probes["adapter-reused"] += 1
                    out.nontrivial = True
                if len(d) >= 65536:
                    out.probes["adapter-input-64k-or-more"] += 1
                try:
                    if what == "enc":
                        got = s["obj"].encrypt(d)
                        exp = refaes.cbc_enc(key, iv, refaes.zpad(d))
                    elif what == "mac":
                        got = s["obj"].mac(d)
                        exp = refaes.cbc_enc(key, iv, refaes.zpad(d))[-16:]
                    else:
                        got = s["obj"].decrypt(d)
                        exp = refaes.cbc_dec(key, iv, d)
                        if exp.endswith(b"\0"):
                            out.probes["adapter-trailing-zero-plaintext"] += 1
                        # also: decrypt(encrypt(x)) is exactly the zero-padded x
                except Exception as e:
                    out.fail("C16.adapter-raises", "%s-%s" % (what, type(e).__name__),
                             "adapter.%s(%d bytes) raised %s: %s (call %d on this object)"
                             % (what, len(d), type(e).__name__, e, s["calls"]))
                    continue
                out.ev("adapter", oid, what, len(d))
                if bytes(got) != exp:
                    out.fail("C16.adapter-differs", what,
                             "adapter.%s(%s) = %s, zero-padded CBC says %s (call %d on this object)"
                             % (what, d.hex(), bytes(got).hex(), exp.hex(), s["calls"]))
                if what == "enc":
                    try:
                        back = s["obj"].decrypt(got)
                    except Exception as e:
                        out.fail("C16.adapter-raises", "dec-%s" % type(e).__name__, "decrypt of own ciphertext raised %r" % e)
                    else:
                        if bytes(back) != refaes.zpad(d):
                            out.fail("C16.adapter-differs", "roundtrip",
                                     "decrypt(encrypt(x)) returned %d bytes %s, expected the zero-padded input %s"
                                     % (len(back), bytes(back).hex(), refaes.zpad(d).hex()))
                continue
            if k == "raw":
                d = op[2]
                blk = bytes(rnd.getrandbits(8) for _ in range(16))
                s["calls"].append(d)
                try:
                    if o["ecb"]:
                        got = s["obj"].encrypt(blk) if d == "enc" else s["obj"].decrypt(blk)
                    else:
                        got = bytes(s["obj"].encrypt(list(blk)) if d == "enc" else s["obj"].decrypt(list(blk)))
                except Exception as e:
                    out.fail("C16.direct-raises", exc_site(e), "%s %s raised %s: %s" % (
                        "ECB" if o["ecb"] else "AES", d, type(e).__name__, e))
                    continue
                exp = s["ref"].enc(blk) if d == "enc" else s["ref"].dec(blk)
                out.ev("raw", oid, d)
                if len(set(s["calls"])) == 2:
                    out.probes["both-directions-on-one-object"] += 1
                    out.nontrivial = True
                if bytes(got) != exp:
                    out.fail("C16.block-differs", "%s-%s" % ("ecb" if o["ecb"] else "aes", d),
                             "%s object (key %d bytes): %s of a block differs from FIPS-197 after the call history %s"
                             % ("ECB" if o["ecb"] else "AES", len(o["key"]) // 2, d, s["calls"]))
                continue
            if k == "feed":
                n = op[2]
                if o["dir"] == "enc":
                    chunk = bytes(rnd.getrandbits(8) for _ in range(n))
                else:
                    chunk = s["todo"][:n]
                    s["todo"] = s["todo"][n:]
                if n == 0:
                    out.probes["feeder-chunk-zero"] += 1
                s["inp"] += chunk
                try:
                    s["outp"] += s["obj"].feed(chunk)
                except Exception as e:
                    out.fail("C16.feed-raises", exc_site(e), "feed(%d bytes) raised %s: %s" % (n, type(e).__name__, e))
                    s["broken"] = True
                out.ev("feed", oid, n, len(s["outp"]))
                continue
            if k == "finish":
                if s.get("broken"):
                    continue
                if o["dir"] == "dec" and s.get("todo"):
                    s["inp"] += s["todo"]
                    try:
                        s["outp"] += s["obj"].feed(s["todo"])
                    except Exception as e:
                        out.fail("C16.feed-raises", exc_site(e), "feed raised %s: %s" % (type(e).__name__, e))
                        continue
                    s["todo"] = b""
                if o["dir"] == "enc":
                    exp = _expected_feeder(o, s["inp"])
                else:
                    exp = s["expect"]
                try:
                    s["outp"] += s["obj"].feed()
                except Exception as e:
                    if exp is None:
                        out.ev("finish", oid, "rejected")
                        continue
                    out.fail("C16.finish-raises", exc_site(e), "finish of %s %s feeder after %d bytes raised %s: %s"
                             % (o["mode"], o["dir"], len(s["inp"]), type(e).__name__, e))
                    continue
                out.ev("finish", oid, len(s["inp"]), len(s["outp"]))
                if o["mode"] == "cfb" and len(s["inp"]) % o["seg"]:
                    out.probes["cfb-partial-final-segment"] += 1
                if o["mode"] == "ctr" and o["ctr"] != "default" and int(o["ctr"]) + len(s["inp"]) // 16 >= 1 << 128:
                    out.probes["ctr-wrap"] += 1
                if o["mode"] == "ctr" and o["ctr"] == "default":
                    out.probes["ctr-default-counter"] += 1
                if exp is not None and s["outp"] != exp:
                    out.fail("C16.feeder-differs", "%s-%s" % (o["mode"], o["dir"]),
                             "%s %s feeder (padding %s, key %d bytes): output for %d input bytes differs from the "
                             "mode definition applied to the whole input (%d vs %d bytes)"
                             % (o["mode"], o["dir"], o["pad"], len(o["key"]) // 2, len(s["inp"]), len(s["outp"]), len(exp)))
                continue
            if k == "refused":
                if s.get("broken"):
                    continue
                chunk = bytes(rnd.getrandbits(8) for _ in range(op[2]))
                try:
                    (s["obj"].encrypt if o["dir"] == "enc" else s["obj"].decrypt)(chunk)
                except Exception as e:
                    # refused: nothing was processed, later blocks must still follow the mode definition
                    out.probes["refused-call-then-continue"] += 1
                    out.ev("refused", oid, op[2], type(e).__name__)
                else:
                    s["broken"] = True      # accepted input that is not a block: no demand on what follows
                    out.ev("refused-accepted", oid, op[2])
                continue
            if k == "direct":
                if s.get("broken"):
                    continue
                n = op[2]
                if o["mode"] in ("ecb", "cbc"):
                    n = 16
                elif o["mode"] == "cfb":
                    n = max(o["seg"], n - n % o["seg"])
                chunk = bytes(rnd.getrandbits(8) for _ in range(n))
                s["inp"] += chunk
                try:
                    if o["dir"] == "enc":
                        s["outp"] += s["obj"].encrypt(chunk)
                    else:
                        s["outp"] += s["obj"].decrypt(chunk)
                except Exception as e:
                    out.fail("C16.direct-raises", exc_site(e), "%s.%s(%d bytes) raised %s: %s"
                             % (o["mode"], o["dir"], n, type(e).__name__, e))
                    continue
                exp = _ref_stream(o, s["inp"], o["dir"])
                out.ev("direct", oid, n)
                if o["mode"] == "ctr" and o["ctr"] != "default" and int(o["ctr"]) + len(s["inp"]) // 16 >= 1 << 128:
                    out.probes["ctr-wrap"] += 1
                if s["outp"] != exp:
                    out.fail("C16.mode-differs", "%s-%s" % (o["mode"], o["dir"]),
                             "%s mode object (key %d bytes): concatenated %s output of %d calls differs from the mode "
                             "definition on the concatenated input (%d bytes)"
                             % (o["mode"], len(o["key"]) // 2, o["dir"], len(s["inp"]) // max(n, 1), len(s["inp"])))
                continue
        if switches >= 2:
            out.probes["interleaved-objects"] += 1
            out.nontrivial = True
        out.evals = max(1, nops)
    finally:
        env.restore_registry()
    return out


def _pump(out, o):
    blockfeeder = env.pyaes.blockfeeder
    data = bytes.fromhex(o["data"])
    blockmode = o["mode"] in ("ecb", "cbc")
    if o["dir"] == "enc":
        src = data
        exp = _ref_stream(o, _pkcs7(data) if blockmode else data, "enc")
    else:
        src = _ref_stream(o, _pkcs7(data) if blockmode else data, "enc")
        exp = data
    ins = SimByteStream(src, o["sizes"])
    outs = SimByteStream()
    mode = _make_mode(o)
    if o["bs"] == 1:
        out.probes["pump-block-size-1"] += 1
    try:
        if o["dir"] == "enc":
            blockfeeder.encrypt_stream(mode, ins, outs, block_size=o["bs"])
        else:
            blockfeeder.decrypt_stream(mode, ins, outs, block_size=o["bs"])
    except Exception as e:
        out.fail("C16.pump-raises", exc_site(e), "%s stream pump (%s, %d bytes, block_size %d, read sizes %s) raised %s: %s"
                 % (o["dir"], o["mode"], len(src), o["bs"], o["sizes"], type(e).__name__, e))
        return
    if ins.short:
        out.probes["short-read"] += 1
        out.fired["short-read"] += ins.short
        out.nontrivial = True
    out.ev("pump", o["mode"], o["dir"], len(src), ins.reads, ins.short)
    if outs.getvalue() != exp:
        out.fail("C16.pump-differs", "%s-%s" % (o["mode"], o["dir"]),
                 "%s stream pump (%s, %d bytes, block_size %d, read sizes %s): output differs from the mode definition "
                 "(%d vs %d bytes)" % (o["dir"], o["mode"], len(src), o["bs"], o["sizes"], len(outs.getvalue()), len(exp)))


def shrink(case):
    if case.get("conc"):
        pre = case["preempt"]
        for i in range(len(pre)):
            yield dict(case, preempt=pre[:i] + pre[i + 1:])
        return
    ops = case["ops"]
    for i in range(len(ops) - 1, -1, -1):
        if ops[i][0] == "new":
            oid = ops[i][1]["id"]
            yield dict(case, ops=[o for o in ops if not ((o[0] == "new" and o[1]["id"] == oid)
                                                         or (o[0] != "new" and o[1] == oid))])
        else:
            yield dict(case, ops=ops[:i] + ops[i + 1:])
