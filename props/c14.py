"""C14 — parsers fail only with format errors and always terminate.
Scoped to what a faulty medium makes of valid BF3, BEC2 and BF2 files (E-store at rest,
1-4 storage faults per file), read through every entry point with every decryptor set,
MAC checking on and off; downstream, every comment value of every file that parsed goes to
the configuration-identifier parser and every platform-filter tag to the filter formatter."""
import copy
import signal
import sys

from sim import env, files, prov, refdir, bf2gen
from sim import gen as G
from sim.core import Outcome, exc_site, rbytes
from sim.simfs import SimFS, SimCrash

ID = "C14"
LEVEL = "exploration"
ENGINE = "E-store"
TECHNIQUE = ("deterministic simulation with fault injection: valid files written by the real writers (BF2: a "
             "grammar generator) are damaged at rest by 1-4 seeded storage faults (bit rot in binary and text, "
             "lost/duplicated/swapped lines, cuts, NUL tails, stale tails, inserted/deleted bytes) and parsed by the "
             "real entry points; oracle = exception type, line-budget termination, global-state snapshot")
DESIGN_REF = "DESIGN.md section 6, C14"
LEVEL_TEXT = ("seeded search over storage-fault sequences applied to valid files; each damaged file is parsed through "
              "every entry point / decryptor set / MAC mode; sampling of the fault space, scoped to storage damage "
              "(unstructured random text is not a storage fault and is not claimed)")
LEVEL_NOTE = ("allowed outcomes: return, library FormatError family, ValueError (incl. UnicodeDecodeError from the "
              "medium's text layer); a wall-clock trip is re-run under a deterministic line budget before it counts")
RUNS = {"quick": 9000, "thorough": 250000}
OPTIMIZED_PASS = {"quick": 500, "thorough": 8000}   # extra runs under PYTHONOPTIMIZE=1 (assert statements removed)
OWN_WATCHDOG = True   # per-parse alarm + deterministic line budget inside run()
RULE = ("per run one valid BF3/BEC2/BF2 file and ~10 damage sets of 1-4 storage faults each; every damaged text is "
        "parsed by the matching entry point under 2-4 configurations (decryptor set none/public-only/private/wrong "
        "key, MAC on/off, path/stream) plus downstream ConfigId / platform-filter parsing; evaluations = parses; "
        "non-trivial = at least one damaged text differed from the original; distinct = distinct event-log digests")
REAL = ["bec2format.bf3file (BF3 reader, BF2 importer, filter formatter)", "bec2format.bec2file (BEC2 reader, auth "
        "blocks, encryptors)", "bec2format.configid", "register_crypto_plugin + pyaes + ecdsa"]
STUBS = ["peer: stub decryptors (the ext_encryptors seam) returning payloads of unexpected size", "medium: SimFS with at-rest damage", "RNG: SimRng", "BF2 texts: grammar generator sim/bf2gen.py"]
PROBES = ["runs-with-assertions-disabled", "same-text-read-again", "peer-decryptor-odd-payload", "parsed-ok-after-damage", "format-error", "value-error", "bec2-empty-block-value",
          "bf2-damaged", "configid-downstream", "filter-downstream", "line-fault", "public-only-decryptor",
          "wrong-key-decryptor", "payload-len-zero"]
ASSUMPTIONS = ["OSError is never injected here (the medium is damaged at rest, reads succeed)"]

TXT_CHARS = ["G", ":", "\n", "\r", " ", "\0", "-", ",", "é", "z", "0", "F", "/", ".", "#", ">", "=", "*"]
CLASSES = ["b0", "b1", "b2", "b3", "b4", "b5", "b6", "b7", "00", "FF", "+1"]

CFGIDS = ["Access Control Headquarters Main Entrance Reader (version 7)", "Office Main Entrance Reader (version 07",
          "Building B Second Floor Meeting Room Door Controller Unit (version 12)",
          "10234-5678-6789-09 Door \tController", "My Project \t (version 07)", "00042-0001-0002-03 a\u00a0 b",
          "10234-5678-6789-09  two  blanks", "10234-5678-6789-09 Testname", "00001-0001-0000-01", "Some Name (version 07)",
          "99999-9999-9999-99 x", "12345-0000-0001-00 a (version 01)"]
FILTERS = ["010100B6", "010280B600BE", "0101009B", "01034001800240AD", "0100", "01018001"]


# names for an extra header / instruction line of a near-valid BF2 text: the known ones, unknown ones, and words the
# importer uses internally
HDR_NAMES = ["Creator", "Firmware", "Bf3Update", "REBOOT", "CRC", "SELECT", "SELECT_IF", "CHECK_FWVER", "X", "",
             "load", "load", "Component1", "FirmwareId"]


def _damage_set(f):
    n = f.choice([1, 1, 1, 2, 2, 3, 4])
    out = []
    for _ in range(n):
        k = f.choice(["bin_rep", "bin_rep", "bin_rep_field", "bin_rep_field", "bin_cut", "bin_del", "bin_ins",
                      "bin_dup", "txt_flip", "txt_flip", "txt_set", "txt_set", "txt_cut", "line_lost",
                      "line_dup", "line_swap", "nul_tail", "stale_tail", "empty", "hdr_only", "txt_del", "line_kind", "bf2_tt", "hdr_ins"])
        if k == "bin_rep":
            out.append([k, f.random(), f.choice(CLASSES)])
        elif k == "bin_rep_field":
            out.append([k, f.randrange(100000), f.choice(CLASSES + ["00", "00", "FF"])])
        elif k in ("bin_cut", "txt_cut", "line_lost", "line_dup", "nul_tail", "line_kind"):
            out.append([k, f.random()])
        elif k in ("bin_del", "bin_dup", "txt_del"):
            out.append([k, f.random(), f.choice([1, 1, 2, 4, 16, 17])])
        elif k == "bin_ins":
            out.append([k, f.random(), rbytes(f, f.choice([1, 2, 16])).hex()])
        elif k == "txt_flip":
            out.append([k, f.random(), f.randrange(8)])
        elif k == "txt_set":
            out.append([k, f.random(), f.choice(TXT_CHARS)])
        elif k == "line_swap":
            out.append([k, f.random(), f.random()])
        elif k == "bf2_tt":
            out.append([k, f.random(), f.choice(["-1", "-1", "-16", "00", "+1", "FF"])])
        elif k == "hdr_ins":
            out.append([k, f.random(), f.choice(HDR_NAMES), f.choice(["##: ", "##:", "#> ", "#>"]),
                        f.choice(["x", "", "0x12", "01 02", "A=b", "Yes", "0x-12", "0x123456789", "-1",
                                  "70000 BALTECHFW 1.02.03", "1053 BALTECHFW 1.300.00", "FILTER=0100", "VERSIONDESC=01"])])
        elif k == "stale_tail":
            out.append([k, f.choice(["00\n", "4246330000\n", "\n\nAB\n", ":0000FF00\n", "k: v\n"])])
        else:
            out.append([k])
    return out


def gen(st, tier):
    w = st["workload"]
    f = st["faults"]
    kind = w.choice(["bf3", "bec2", "bec2", "bf2", "bf2"])
    if kind == "bf2":
        spec = {"kind": "bf2", "bf2": bf2gen.gen_spec(w, max_image=600, p_unknown=0.12), "via": w.choice(["path", "stream"])}
    else:
        spec = files.file_spec(w, kind=kind, p_enc=0.3, max_len=120)
        # make downstream parsers see near-valid input
        if w.random() < 0.7:
            spec["obj"]["comments"].append(["Configuration", w.choice(CFGIDS)])
        if w.random() < 0.4:
            spec["obj"]["comments"].append(["DeviceSettings", w.choice(CFGIDS)])
        for c in spec["obj"]["components"]:
            if w.random() < 0.5 and not any(t == 0xC9 for t, _ in c["desc"]) and G.desc_size(c["desc"]) < 150:
                c["desc"].append([0xC9, w.choice(FILTERS)])
    spec["damage"] = [_damage_set(f) for _ in range(10)]
    spec["modes"] = [[f.choice(["none", "public", "private", "wrong", "private"]), f.random() < 0.7,
                      f.choice(["path", "stream"])] for _ in range(len(spec["damage"]))]
    if kind == "bec2":
        for i_, m_ in enumerate(spec["modes"]):
            if i_ % 4 == 3:
                m_[2] = "iter"      # the decryptor set is handed over as a one-shot iterator
        # faulty peer: a pluggable decryptor (the seam for hardware crypto units) that hands back a payload
        # of unexpected size for an otherwise valid file
        spec["damage"].append([])
        spec["modes"].append(["peer", True, "path"])
        spec["peer"] = [f.choice([0, 1, 2, 15, 16, 17, 25, 26, 27, 40]) for _ in range(3)]
    return spec


# ---------------------------------------------------------------- damage ---
def _pos(fr, n):
    return min(max(n - 1, 0), int(fr * n)) if n else 0


def apply_damage(orig, dset, crlf):
    """orig: durable bytes of the valid file. Returns damaged bytes."""
    data = orig
    for d in dset:
        k = d[0]
        if k.startswith("bin_"):
            try:
                head, binary = files.binary_of(data)
            except Exception:
                continue  # text no longer hex: binary-level faults have nothing to act on
            if not binary:
                continue
            b = bytearray(binary)
            if k in ("bin_rep", "bin_rep_field"):
                if k == "bin_rep_field":
                    regions, _ = refdir.walk(binary)
                    fields = refdir.interesting_positions(regions) or [0]
                    p = fields[d[1] % len(fields)]
                    p = min(p, len(b) - 1)
                else:
                    p = _pos(d[1], len(b))
                c = d[2]
                if c[0] == "b":
                    b[p] ^= 1 << int(c[1])
                elif c == "00":
                    b[p] = 0
                elif c == "FF":
                    b[p] = 0xFF
                else:
                    b[p] = (b[p] + 1) & 0xFF
            elif k == "bin_cut":
                b = b[:_pos(d[1], len(b))]
            elif k == "bin_del":
                p = _pos(d[1], len(b))
                del b[p:p + d[2]]
            elif k == "bin_dup":
                p = _pos(d[1], len(b))
                b[p:p] = b[p:p + d[2]]
            elif k == "bin_ins":
                p = _pos(d[1], len(b))
                b[p:p] = bytes.fromhex(d[2])
            data = files.render(head, bytes(b), crlf)
            continue
        if k == "txt_flip":
            if data:
                b = bytearray(data)
                b[_pos(d[1], len(b))] ^= 1 << d[2]
                data = bytes(b)
        elif k == "txt_set":
            if data:
                p = _pos(d[1], len(data))
                data = data[:p] + d[2].encode("utf-8") + data[p + 1:]
        elif k == "txt_del":
            p = _pos(d[1], len(data))
            data = data[:p] + data[p + d[2]:]
        elif k == "txt_cut":
            data = data[:_pos(d[1], len(data))]
        elif k in ("line_lost", "line_dup", "line_swap"):
            lines = data.splitlines(keepends=True)
            if lines:
                i = _pos(d[1], len(lines))
                if k == "line_lost":
                    del lines[i]
                elif k == "line_dup":
                    lines.insert(i, lines[i])
                else:
                    j = _pos(d[2], len(lines))
                    lines[i], lines[j] = lines[j], lines[i]
                data = b"".join(lines)
        elif k == "hdr_ins":
            # a near-valid BF2 text: one more header / instruction line
            lines = data.splitlines(keepends=True)
            eol = b"\r\n" if crlf else b"\n"
            name, how, val = d[2].encode(), d[3], d[4].encode()
            if how.startswith("##"):
                ln = b"##" + name + (b": " if how == "##: " else b":") + val
            else:
                ln = b"#>" + name + ((b" " + val) if how == "#> " and val else b"")
            lines.insert(_pos(d[1], len(lines) + 1) if lines else 0, ln + eol)
            data = b"".join(lines)
        elif k == "bf2_tt":
            # bit rot in the tag-type byte of one BF2 data line (a later line of a section then has a lower or
            # an unrelated type)
            lines = data.splitlines(keepends=True)
            cand = [i for i, ln in enumerate(lines) if ln[:1] == b":" and len(ln) >= 9]
            if cand:
                i = cand[_pos(d[1], len(cand))]
                try:
                    t = int(lines[i][5:7], 16)
                    nt = {"-1": t - 1, "-16": t - 16, "00": 0, "+1": t + 1, "FF": 0xFF}[d[2]] & 0xFF
                    lines[i] = lines[i][:5] + b"%02X" % nt + lines[i][7:]
                    data = b"".join(lines)
                except ValueError:
                    pass
        elif k == "line_kind":
            # a near-valid BF2 text: one header / instruction line written in the other line syntax
            # ("#>NAME K=V" <-> "##NAME: text"), name kept
            lines = data.splitlines(keepends=True)
            cand = [i for i, ln in enumerate(lines) if ln[:2] in (b"#>", b"##")]
            if cand:
                i = cand[_pos(d[1], len(cand))]
                ln = lines[i]
                eol = ln[len(ln.rstrip(b"\r\n")):]
                body = ln[2:].rstrip(b"\r\n")
                if ln[:2] == b"#>":
                    name, _, rest = body.partition(b" ")
                    lines[i] = b"##" + name + b": " + rest + eol
                else:
                    name, _, rest = body.partition(b":")
                    lines[i] = b"#>" + name + b" V=" + rest.strip() + eol
                data = b"".join(lines)
        elif k == "nul_tail":
            p = _pos(d[1], len(data))
            data = data[:p] + bytes(len(data) - p)
        elif k == "stale_tail":
            data = data + d[1].encode()
        elif k == "empty":
            data = b""
        elif k == "hdr_only":
            try:
                head, _ = files.split_text(data)
                data = head
            except Exception:
                pass
    return data


# --------------------------------------------------------------- oracle ----
def _allowed(e):
    return isinstance(e, (env.error.FormatError, ValueError))


def _snapshot():
    bf = env.bf3file
    return (env.registry_names(),
            tuple(sorted((k, id(v)) for k, v in env.bec2file.Bec2File.AUTH_BLOCK_CLS_MAP.items())),
            tuple(sorted(env.bec2file.EccEncryptor.DEFAULT_PUBLIC_KEYS.items())),
            repr(sorted(bf.BF2_TAGTYPE_MAP.items())),
            repr(sorted(bf.HWCID_MAP.items())), repr(sorted(bf.REV_HWCID_MAP.items())),
            repr(sorted(bf.PFID2FILTER_TO_HWCID_SPECIAL_CASES.items())),
            repr(sorted(bf.BF2_INTERFACES.items())))


class _Timeout(BaseException):
    pass


def _alarm(signum, frame):
    raise _Timeout()


class _Budget(BaseException):
    pass


def _with_line_budget(fn, budget):
    n = [0]

    def tr(frame, event, arg):
        if event == "line":
            n[0] += 1
            if n[0] > budget:
                raise _Budget()
        return tr
    old = sys.gettrace()
    # a second, longer wall-clock cap covers hangs inside C code (a regular expression that backtracks
    # exponentially produces no line events at all)
    oldh = signal.signal(signal.SIGALRM, _alarm)
    signal.setitimer(signal.ITIMER_REAL, 30.0)
    sys.settrace(tr)
    try:
        fn()
    except _Budget:
        return True, n[0]
    except _Timeout:
        return True, -1
    except BaseException:
        pass
    finally:
        sys.settrace(old)
        signal.setitimer(signal.ITIMER_REAL, 0)
        signal.signal(signal.SIGALRM, oldh)
    return False, n[0]


_HUNG = set()   # entry points already seen not to terminate in this process: do not wait for them again


def guarded(out, what, fn, text_len, narrow, detail_ctx):
    """run one parse; classify the outcome. Returns (kind, value)."""
    use_alarm = hasattr(signal, "SIGALRM")
    if what in _HUNG:
        return "timeout", None
    if use_alarm:
        oldh = signal.signal(signal.SIGALRM, _alarm)
        signal.setitimer(signal.ITIMER_REAL, 3.0 if text_len < 2000 else 20.0)
    try:
        try:
            v = fn()
            return "ok", v
        finally:
            if use_alarm:
                signal.setitimer(signal.ITIMER_REAL, 0)
                signal.signal(signal.SIGALRM, oldh)
    except _Timeout:
        budget = 200000 + 4000 * text_len
        over, n = _with_line_budget(fn, budget)
        if over:
            _HUNG.add(what)
            out.fail("C14.non-termination", what, "%s did not finish: %s (%s)" % (
                what, "no progress for 30 s inside a C-level call" if n < 0 else "more than %d traced lines" % budget,
                detail_ctx), narrow)
        else:
            out.probes["slow-case"] += 1
        return "timeout", None
    except SimCrash:
        raise
    except Exception as e:
        if _allowed(e):
            if isinstance(e, UnicodeError):
                out.probes["unicode-error"] += 1
            elif isinstance(e, env.error.FormatError):
                out.probes["format-error"] += 1
            else:
                out.probes["value-error"] += 1
            return "error", type(e).__name__
        out.fail("C14.unrelated-exception", "%s@%s" % (type(e).__name__, exc_site(e)),
                 "%s raised %s: %s (%s)" % (what, type(e).__name__, str(e)[:200], detail_ctx), narrow)
        return "bad", type(e).__name__


def _peer_stubs(case, bf):
    lens = case.get("peer") or [0, 16, 26]

    def payload(n, salt):
        return bytes((salt * 31 + i * 7) & 0xFF for i in range(n))
    out = []
    for i, b in enumerate(case["blocks"]):
        n = lens[i % len(lens)]
        if b["t"] == "cust":
            class StubCust(bf.CustKeyEncryptor):
                def decrypt(self, ciphertext, n=n, i=i):
                    return payload(n, i)
            out.append(StubCust())
        elif b["t"] == "upd":
            class StubCode(bf.ConfigSecurityCodeEncryptor):
                def decrypt(self, ciphertext, n=n, i=i):
                    return payload(n, i)
            out.append(StubCode(bytes.fromhex(b["code"])))
        else:
            class StubEcc(bf.EccEncryptor):
                def decrypt(self, ciphertext, n=n, i=i):
                    return payload(n, i)
            out.append(StubEcc(b["sel"]))
    return out


def _decryptors(mode, case, w, fs):
    bf = env.bec2file
    if mode == "none":
        return []
    if mode == "peer":
        return _peer_stubs(case, bf)
    if mode == "private":
        return list(w.decryptors.values())
    out = []
    for i, b in enumerate(case["blocks"]):
        if b["t"] == "ecc":
            if mode == "public":
                out.append(bf.EccEncryptor(b["sel"]))
            else:
                out.append(bf.EccDecryptor(b["sel"], prov.make_priv(env, 7 + i)))
        elif b["t"] == "cust":
            if mode == "wrong":
                out.append(bf.SoftwareCustKeyEncryptor(bytes(range(16))))
            elif mode == "public":
                # a crypto unit that can only encrypt (the plug-in point for hardware): decrypt() is the inherited
                # NotImplementedError
                inner = w.decryptors[i]

                class EncryptOnlyCust(bf.CustKeyEncryptor):
                    def encrypt(self, plaintext, inner=inner):
                        return inner.encrypt(plaintext)
                out.append(EncryptOnlyCust())
            else:
                out.append(w.decryptors[i])
        else:
            if mode == "wrong":
                out.append(bf.ConfigSecurityCodeEncryptor(b"\x01" * 8))
            elif mode == "public":
                class EncryptOnlyCode(bf.ConfigSecurityCodeEncryptor):
                    def decrypt(self, ciphertext):
                        raise NotImplementedError()
                out.append(EncryptOnlyCode(bytes.fromhex(b["code"])))
            else:
                out.append(w.decryptors[i])
    return out


def run(case):
    out = Outcome()
    fs = SimFS()
    env.restore_registry()
    env.use_fs(fs)
    kind = case["kind"]
    name = {"bf3": "fw.bf3", "bec2": "dev.bec2", "bf2": "fw.bf2"}[kind]
    try:
        if kind == "bf2":
            text = bf2gen.render(case["bf2"])
            orig = text.encode("utf-8")
            w = None
        else:
            try:
                w = files.write_file(case, fs, env, name)
            except Exception as e:
                out.ev("write-failed", type(e).__name__)
                return out
            orig = w.durable
        crlf = b"\r\n" in orig
        snap0 = _snapshot()
        nev = 0
        for di, dset in enumerate(case["damage"]):
            mode, check, via = case["modes"][di]
            damaged = apply_damage(orig, dset, crlf)
            if damaged != orig:
                out.nontrivial = True
            for d in dset:
                out.fired[d[0]] += 1
                if d[0].startswith("line_"):
                    out.probes["line-fault"] += 1
                if d[0] == "line_kind" and kind == "bf2":
                    out.probes["bf2-line-in-other-syntax"] += 1
            fs.restart()
            fs.files[name] = damaged
            narrow = dict(case, damage=[dset], modes=[[mode, check, via]])
            ctx = "file kind %s, damage %s, decryptors %s, check_cmac %s, via %s" % (kind, dset, mode, check, via)
            if kind in ("bec2", "bf3"):
                try:
                    hb = files.binary_of(damaged)[1]
                    rg, info = refdir.walk(hb)
                    if any(ln == 0 for _, _, ln in info["blocks"]):
                        out.probes["bec2-empty-block-value"] += 1
                    if any(e["total"] == 0 for e in info["entries"]):
                        out.probes["payload-len-zero"] += 1
                except Exception:
                    pass
            if kind == "bec2":
                if mode == "public":
                    out.probes["public-only-decryptor"] += 1
                if mode == "wrong":
                    out.probes["wrong-key-decryptor"] += 1
                if mode == "peer":
                    out.probes["peer-decryptor-odd-payload"] += 1
                    out.fired["peer-payload-size"] += 1

            def parse():
                if kind == "bf2":
                    if via == "path":
                        return env.bf3file.Bf3File.bf2_import(name, enforce_bf3_compatibility=check)
                    h = fs.open(name, "r")
                    try:
                        return env.bf3file.Bf3File.bf2_import(h, enforce_bf3_compatibility=check)
                    finally:
                        h.close()
                if kind == "bf3":
                    return files.read_file("bf3", fs, env, name, via, check, w.key)
                return files.read_file("bec2", fs, env, name, via, check, None,
                                       _decryptors(mode, case, w, fs))
            if kind == "bf2":
                out.probes["bf2-damaged"] += 1
            nev += 1
            what_ = {"bf3": "Bf3File.read_file", "bec2": "Bec2File.read_file", "bf2": "Bf3File.bf2_import"}[kind]
            if kind == "bec2" and mode in ("private", "wrong", "peer"):
                # decryptor objects are long-lived: keep the same objects for the retry below
                decs_once = _decryptors(mode, case, w, fs)

                def parse():  # noqa: F811
                    return files.read_file("bec2", fs, env, name, via, check, None, decs_once)
            if kind == "bec2" and via == "iter":
                # the decryptor set is an Iterable: here a one-shot iterator
                out.probes["decryptors-as-iterator"] += 1
                mode_ = mode

                def parse():  # noqa: F811
                    return env.bec2file.Bec2File.read_file(name, iter(_decryptors(mode_, case, w, fs)), check)
            res, val = guarded(out, what_, parse, len(damaged), narrow, ctx)
            out.ev("parse", di, res, val if res != "ok" else "")
            if res == "error":
                # a caller that got an error reads the same file again (same decryptor objects)
                nev += 1
                out.probes["same-text-read-again"] += 1
                res2, val2 = guarded(out, what_, parse, len(damaged), narrow, ctx + ", second read of the same text")
                out.ev("parse-again", di, res2, val2 if res2 != "ok" else "")
            if res == "ok":
                out.probes["parsed-ok-after-damage"] += 1
                bf3 = val.bf3file if kind == "bec2" else val
                for k, v in list(bf3.comments.items()):
                    if not isinstance(v, str):
                        # the identifier parser is specified for text; a comment value that is not text
                        # (bf2_import keeps the parameter dict of "#>Bf3Update K=V") is not an input of it
                        out.probes["non-text-comment-value"] += 1
                        continue
                    nev += 1
                    out.probes["configid-downstream"] += 1
                    r2, _ = guarded(out, "ConfigId.create_from_str",
                                    lambda v=v: env.configid.ConfigId.create_from_str(v), len(v), narrow,
                                    ctx + ", comment %r" % (v,))
                    out.ev("cfgid", r2)
                for c in bf3.components:
                    fl = c.description.get(0xC9)
                    if fl is not None:
                        nev += 1
                        out.probes["filter-downstream"] += 1
                        r3, _ = guarded(out, "pfid2_filter_to_str",
                                        lambda fl=fl: env.bf3file.pfid2_filter_to_str(fl), len(fl), narrow,
                                        ctx + ", filter %s" % fl.hex())
                        out.ev("filter", r3)
            if _snapshot() != snap0:
                out.fail("C14.global-state-changed", "global-state",
                         "library-global state differs after parsing (%s)" % ctx, narrow)
                snap0 = _snapshot()
            changed = env.reset_globals()
            if changed:
                out.fail("C14.global-state-changed", "global-state",
                         "module/class level state of the library changed while parsing: %s (%s)" % (changed[:4], ctx),
                         narrow)
                snap0 = _snapshot()
        out.evals = max(1, nev)
    finally:
        env.restore_registry()
    return out


def shrink(case):
    if len(case["damage"]) > 1:
        for i in range(len(case["damage"])):
            yield dict(case, damage=[case["damage"][i]], modes=[case["modes"][i]])
    else:
        ds = case["damage"][0]
        for i in range(len(ds)):
            if len(ds) > 1:
                yield dict(case, damage=[ds[:i] + ds[i + 1:]])
    if case["kind"] == "bf2":
        for ns in bf2gen.spec_shrinks(case["bf2"]):
            yield dict(case, bf2=ns)
        return
    if case.get("blocks") and len(case["blocks"]) > 1:
        for i in range(len(case["blocks"])):
            yield dict(case, blocks=case["blocks"][:i] + case["blocks"][i + 1:])
    for ns in G.spec_shrinks(case["obj"]):
        yield dict(case, obj=ns)
