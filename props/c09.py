"""C09 — an ECC auth block is decryptable by an independent ECIES implementation.
E-prov with the RNG owned by the simulator: the ephemeral scalar is observed at the
key-generation seam, so the device model (RefP256 + RefAES) can open blocks addressed to
BALTECH's published keys (nobody has those private keys) and can steer runs to edge
scalars and to randrange's retry loop.  Faulted arm: one storage fault inside the 64 point
bytes in transit."""
import os
import shutil
import subprocess
import tempfile

from sim import env, prov, refaes, refp256
from sim.core import Outcome, exc_site, rbytes

ID = "C09"
LEVEL = "exploration"
ENGINE = "E-prov"
TECHNIQUE = ("deterministic simulation: ECC block wrap with the RNG and key generation behind seams (observed ephemeral "
             "scalar, forced edge draws, forced retry), independent device model (affine P-256 + bit-level AES) opens the "
             "block; fault arm damages the point bytes in transit; thorough tier cross-checks ECDH with the openssl binary; key-store decoys; two threads through one shared encryptor object under the deterministic thread scheduler")
DESIGN_REF = "DESIGN.md section 6, C09"
LEVEL_TEXT = ("seeded search over (selector, recipient scalar class, session-key class, ephemeral draw class, point damage); "
              "the clause about BALTECH's published keys is decided through the observed ephemeral scalar; sampling")
LEVEL_NOTE = ("oracle uses the scalar observed through register_PrivateEccKey, never one predicted from RNG bytes; RefP256 "
              "validated against published vectors and openssl pkeyutl -derive")
RUNS = {"quick": 6000, "thorough": 120000}
RULE = ("per run one ECC auth block: selector 0-3 x {default recipient, explicit recipient with random or edge scalar "
        "1,2,n-2,n-1} x session key (random / trailing zeros) x ephemeral draw (random / forced edge scalar / first draw "
        ">= n forcing a retry), optionally one fault in the point bytes (bit flip, coordinate >= p, zero point, twist point, "
        "negated point); non-trivial = the device model opened a block or a damaged point was judged; distinct = digests")
REAL = ["bec2format.bec2file (InitEccAuthBlock, EccEncryptor, EccDecryptor)", "bec2format.crypto", "plug-in ECC proxies",
        "ecdsa (keys, ecdh, ellipticcurve, util.randrange)", "pyaes"]
STUBS = ["RNG: SimRng behind os.urandom shims", "key generation observer (register_PrivateEccKey)",
         "device model: RefP256 + RefAES", "openssl binary (thorough tier sample)"]
PROBES = ["first-ecc-operations-of-the-process", "opened-block-packed-without-recipient", "runs-with-assertions-disabled", "invalid-block-presented-twice", "pack-after-unpack-same-object", "subclass-with-own-default-keys-used-first", "selector-changed-between-packs", "file-level-pack", "ext-encryptors-not-a-list", "shared-encryptor-two-threads", "keystore-decoys", "default-recipient", "selector-nonzero-default", "edge-recipient-scalar", "edge-ephemeral-scalar",
          "randrange-retry", "session-key-trailing-zero", "point-off-curve-rejected", "point-coordinate-ge-p",
          "point-zero", "point-negated-still-on-curve", "openssl-agrees"]
THOROUGH_ONLY_PROBES = ["openssl-agrees"]
OPTIMIZED_PASS = {"quick": 800, "thorough": 20000}   # extra runs under PYTHONOPTIMIZE=1 (asserts removed)
ASSUMPTIONS = ["published recipient keys transcribed into sim/prov.py from the appnote/property text"]

N = refp256.N
P = refp256.P


def gen(st, tier):
    w = st["workload"]
    f = st["faults"]
    if w.random() < 0.03:
        # two threads wrap their session keys through ONE shared encryptor object (a shared crypto unit)
        from sim import conc
        pre, ch = conc.sched_spec(st["schedule"])
        return {"conc": True, "sel": w.randrange(4), "recip": prov.scalar_spec(w),
                "skeys": [rbytes(w, 16).hex(), rbytes(w, 16).hex()], "rng": w.getrandbits(32),
                "preempt": pre, "choices": ch}
    recip = None
    if w.random() < 0.6:
        recip = prov.scalar_spec(w)
    k = bytearray(rbytes(w, 16))
    if w.random() < 0.3:
        z = w.choice([1, 1, 2, 4])
        k[16 - z:] = bytes(z)
    r = w.random()
    if r < 0.25:
        eph = w.choice([1, 2, N - 2, N - 1])
    elif r < 0.35:
        eph = "retry"
    else:
        eph = None
    damage = None
    if recip is not None and f.random() < 0.35:
        kind = f.choice(["bit", "bit", "bit", "x>=p", "y>=p", "zero", "twist", "negate", "x=p"])
        damage = [kind, f.randrange(64), f.randrange(8)]
    return {"sel": w.randrange(4), "recip": recip, "skey": bytes(k).hex(), "eph": eph,
            "rng": w.getrandbits(32), "damage": damage, "decoys": w.random() < 0.4,
            "container": w.choice(["list", "list", "tuple", "iter", "generator"]),
            "ossl": tier == "thorough" and w.random() < 0.02}


def _twist_point(seed):
    import random
    r = random.Random(seed)
    while True:
        x = r.randrange(1, P)
        rhs = (x * x * x + refp256.A * x + refp256.B) % P
        if pow(rhs, (P - 1) // 2, P) != 1:
            return x, r.randrange(1, P)


def _damage(point, dmg, seed):
    x = int.from_bytes(point[:32], "big")
    y = int.from_bytes(point[32:], "big")
    k = dmg[0]
    if k == "bit":
        b = bytearray(point)
        b[dmg[1]] ^= 1 << dmg[2]
        return bytes(b)
    if k == "x>=p":
        if x + P < 1 << 256:
            x += P
        else:
            x = P + 5
    elif k == "x=p":
        x = P
    elif k == "y>=p":
        if y + P < 1 << 256:
            y += P
        else:
            y = P + 5
    elif k == "zero":
        x = y = 0
    elif k == "twist":
        x, y = _twist_point(seed)
    elif k == "negate":
        y = P - y
    return x.to_bytes(32, "big") + y.to_bytes(32, "big")


def _openssl_ecdh(d, point_raw):
    ossl = shutil.which("openssl")
    if not ossl:
        return None
    tmp = tempfile.mkdtemp(prefix="verif-c09-")
    try:
        fa = os.path.join(tmp, "a.der")
        fb = os.path.join(tmp, "b.der")
        open(fa, "wb").write(refp256.sec1_private_der(d))
        open(fb, "wb").write(refp256.SPKI_PREFIX + point_raw)
        p = subprocess.run([ossl, "pkeyutl", "-derive", "-keyform", "DER", "-inkey", fa, "-peerform", "DER",
                            "-peerkey", fb], capture_output=True, timeout=30)
        return p.stdout if p.returncode == 0 else b"openssl-failed"
    finally:
        shutil.rmtree(tmp, ignore_errors=True)


def _run_conc(case):
    from sim import conc
    out = Outcome()
    bf = env.bec2file
    sel = case["sel"]

    def make_bodies(s):
        rngs = [prov.SimRng(case["rng"] * 2 + i) for i in range(2)]
        env.install_rng(lambda n, site: rngs[s.me().tid](n, site))
        priv = prov.make_priv(env, case["recip"])
        shared = bf.EccEncryptor(sel, priv.public_key)
        if case["rng"] % 2 == 0:
            # the threads' ECC operations are the first ones of the process: the curve's generator object is new,
            # its multiplication table gets built inside the run
            cv = env.ecdsa.curves.NIST256p
            saved.setdefault("gen", cv.generator)
            g0 = saved["gen"]
            cv.generator = env.ecdsa.ellipticcurve.PointJacobi(cv.curve, g0.x(), g0.y(), 1, cv.order, generator=True)
            state["fresh"] = True

        def body(i):
            def fn():
                return bf.InitEccAuthBlock(sel).pack(bytes.fromhex(case["skeys"][i]), [shared])
            return fn
        return [body(0), body(1)]
    saved = {}
    state = {}
    try:
        dry, cc, pre = conc.run_conc(make_bodies, case["preempt"], case["choices"], with_ecdsa=True, first=0)
    finally:
        if "gen" in saved:
            env.ecdsa.curves.NIST256p.generator = saved["gen"]
        env.restore_registry()
    if state.get("fresh"):
        out.probes["first-ecc-operations-of-the-process"] += 1
    npre = sum(1 for d in cc.decisions if d[3] == "preempt")
    out.fired["preempt"] += npre
    out.nontrivial = npre > 0
    out.probes["shared-encryptor-two-threads"] += 1
    out.ev("conc", tuple(cc.decisions), cc.aborted, [t.result.hex()[:20] if t.result else None for t in cc.threads])
    narrow = dict(case, preempt=[["abs", p] if isinstance(p, int) else list(p) for p in pre])
    if any(t.exc is not None for t in dry.threads):
        out.ev("sequential-raises")
        return out
    bspec = {"t": "ecc", "sel": sel, "recip": case["recip"]}
    pts = []
    for i, t in enumerate(cc.threads):
        if cc.aborted or t.exc is not None:
            out.fail("C09.concurrent", "raises", "thread %d: %s %r" % (i, cc.aborted, t.exc), narrow)
            continue
        try:
            k = prov.device_unwrap(bspec, 3, t.result)
        except ValueError as e:
            out.fail("C09.device", "concurrent-unwrap-failed", "thread %d: device model cannot open the block: %s" % (i, e), narrow)
            continue
        pts.append(t.result[2:66])
        if k != bytes.fromhex(case["skeys"][i]):
            out.fail("C09.device", "concurrent-wrong-key",
                     "thread %d packed through an encryptor object shared with another thread: the recipient recovers "
                     "%s, session key is %s (schedule %s)" % (i, k.hex(), case["skeys"][i], cc.decisions), narrow)
    if len(pts) == 2 and pts[0] == pts[1]:
        out.fail("C09.ephemeral", "concurrent-same-point", "both threads' blocks carry the same ephemeral point", narrow)
    return out


def run(case):
    if case.get("conc"):
        return _run_conc(case)
    out = Outcome()
    env.restore_registry()
    bf = env.bec2file
    try:
        script = []
        if case["eph"] == "retry":
            script.append(["ecc", "ff" * 33])
        elif case["eph"] is not None:
            script.append(["ecc", ((case["eph"] - 1).to_bytes(32, "big") + b"\0").hex()])
        rng = prov.SimRng(case["rng"], script)
        env.install_rng(rng)
        obs = prov.KeyGenObserver(env)
        obs.install()
        sel = case["sel"]
        skey = bytes.fromhex(case["skey"])
        block = bf.InitEccAuthBlock(sel)
        ext = []
        priv = None
        if case["recip"] is not None:
            priv = prov.make_priv(env, case["recip"])
            ext = [bf.EccEncryptor(sel, priv.public_key)]
            if case["recip"] in (1, 2, N - 2, N - 1):
                out.probes["edge-recipient-scalar"] += 1
        else:
            out.probes["default-recipient"] += 1
            if sel:
                out.probes["selector-nonzero-default"] += 1
        decoys = prov.decoys_for(env, sel) if case.get("decoys") else []
        if decoys:
            out.probes["keystore-decoys"] += 1
            ext = [e for e, _ in decoys] + ext
        if case["recip"] is None and case["rng"] % 5 == 0:
            # a test lab's subclass with its own default keys is used first (same selector): no business of the
            # plain class
            lab = prov.make_priv(env, 987654321 + sel)

            class LabEcc(bf.EccEncryptor):
                DEFAULT_PUBLIC_KEYS = {s_: lab.public_key.to_der_fmt() for s_ in range(4)}
            LabEcc(sel).encrypt(bytes(16))
            obs.generated.clear()
            out.probes["subclass-with-own-default-keys-used-first"] += 1
        ndraw0 = len(rng.draws)
        kind_ = case.get("container", "list")
        if kind_ != "list":
            out.probes["ext-encryptors-not-a-list"] += 1
        ext_arg = {"list": list, "tuple": tuple, "iter": iter, "generator": lambda x: (e for e in x)}[kind_](ext)
        try:
            raw = block.pack(skey, ext_arg)
        except Exception as e:
            out.fail("C09.pack-raises", exc_site(e), "packing an ECC block (selector %d) raised %s: %s"
                     % (sel, type(e).__name__, e))
            return out
        draws = rng.draws[ndraw0:]
        if len(draws) >= 2:
            out.probes["randrange-retry"] += 1
            out.fired["rng-forced-retry"] += 1
        if case["eph"] not in (None, "retry"):
            out.fired["rng-forced-scalar"] += 1
        if skey.endswith(b"\0"):
            out.probes["session-key-trailing-zero"] += 1
        out.ev("packed", sel, raw.hex()[:24], len(draws), len(obs.generated), case["recip"] is None)
        if len(obs.generated) != 1:
            out.fail("C09.ephemeral", "generations", "%d key generations during one pack (expected exactly one)"
                     % len(obs.generated))
            return out
        if not draws:
            out.fail("C09.ephemeral", "no-draw", "no RNG draw during pack: the ephemeral key is not fresh")
        d = obs.generated[0][0]
        if d in (1, 2, N - 2, N - 1):
            out.probes["edge-ephemeral-scalar"] += 1
        # ---- layout ----
        if len(raw) != 82 or raw[0] != sel or raw[1] != 4:
            out.fail("C09.layout", "framing", "block is %d bytes, selector byte %r, marker %r (expected 82, %d, 4)"
                     % (len(raw), raw[:1].hex(), raw[1:2].hex(), sel))
            return out
        pt = refp256.parse_raw(raw[2:66])
        if not refp256.on_curve(pt):
            out.fail("C09.layout", "point-off-curve", "ephemeral point is not on P-256")
            return out
        if refp256.mul(d, refp256.G) != pt:
            out.fail("C09.layout", "point-not-dG", "ephemeral point is not d*G for the generated scalar")
        # ---- the device model opens it ----
        bspec = {"t": "ecc", "sel": sel, "recip": case["recip"]}
        try:
            key = prov.device_unwrap(bspec, 3, raw, eph_scalar=d)
        except ValueError as e:
            out.fail("C09.device", "unwrap-failed", "device model cannot open the block: %s" % e)
            return out
        out.nontrivial = True
        if key != skey:
            who = "explicit recipient" if case["recip"] is not None else "published key of selector %d" % sel
            out.fail("C09.device", "wrong-key-" + ("explicit" if case["recip"] is not None else "default"),
                     "holder of the private key for the %s recovers %s, session key is %s"
                     % (who, key.hex(), skey.hex()))
        if case.get("ossl") and case["recip"] is not None:
            x = _openssl_ecdh(case["recip"], raw[2:66])
            if x is not None:
                if x == refp256.ecdh_x(case["recip"], pt):
                    out.probes["openssl-agrees"] += 1
                else:
                    out.fail("C09.refmodel", "openssl", "RefP256 ECDH disagrees with openssl (harness model error)")
        # ---- the same block object packed again after its public key_selector attribute was changed ----
        if case["recip"] is None and case["rng"] % 3 == 0:
            sel2 = (sel + 1 + case["rng"] % 3) % 4
            block.key_selector = sel2
            try:
                raw2 = block.pack(skey, [])
                k2s = prov.device_unwrap({"t": "ecc", "sel": sel2, "recip": None}, 3, raw2, eph_scalar=obs.generated[-1][0])
            except Exception as e:
                out.fail("C09.device", "repack-" + type(e).__name__, "re-packing the block object after changing its key "
                         "selector to %d failed: %s" % (sel2, e))
            else:
                out.probes["selector-changed-between-packs"] += 1
                if k2s != skey:
                    out.fail("C09.device", "repack-wrong-key-default", "block object re-packed after its key selector was "
                             "changed from %d to %d: the published key of selector %d does not open it" % (sel, sel2, sel2))
            block.key_selector = sel
        # ---- the same through the file-level API (Bec2File.to_binary), same kind of container ----
        if case.get("container", "list") != "list" or case["rng"] % 4 == 0:
            ext2 = {"list": list, "tuple": tuple, "iter": iter, "generator": lambda x: (e for e in x)}[kind_](ext)
            try:
                fbin = bf.Bec2File(env.bf3file.Bf3File(), [bf.InitEccAuthBlock(sel)], skey).to_binary(ext2)
                hdr, _off = prov.parse_header(fbin)
                d2 = obs.generated[-1][0]
                k2f = prov.device_unwrap(bspec, hdr[0][0], hdr[0][1], eph_scalar=d2)
            except Exception as e:
                out.fail("C09.device", "file-level-" + type(e).__name__, "ECC block written through Bec2File.to_binary "
                         "(ext_encryptors as %s) cannot be opened: %s" % (kind_, e))
            else:
                out.probes["file-level-pack"] += 1
                if k2f != skey:
                    out.fail("C09.device", "file-level-wrong-key-" + ("explicit" if case["recip"] is not None else "default"),
                             "ECC block written through Bec2File.to_binary with ext_encryptors given as %s: the "
                             "addressed recipient recovers %s, session key is %s" % (kind_, k2f.hex(), skey.hex()))
        # ---- the real decryptor agrees ----
        if priv is not None:
            dec = bf.EccDecryptor(sel, priv)
            if decoys:
                # only decryptors for OTHER selectors: nobody here can open the block
                try:
                    blk0, k0 = bf.InitEccAuthBlock.unpack(raw, [d_ for _, d_ in decoys])
                except Exception:
                    pass
                else:
                    out.fail("C09.unpack", "foreign-selector-decryptor-used",
                             "with decryptors for other key selectors only, unpack returned key %s instead of "
                             "refusing" % k0.hex())
            try:
                blk, k2 = bf.InitEccAuthBlock.unpack(raw, [d_ for _, d_ in decoys] + [dec])
            except Exception as e:
                out.fail("C09.unpack", "raises-" + type(e).__name__, "unpacking the block with the recipient's "
                         "private key raised %s: %s" % (type(e).__name__, e))
                return out
            if k2 != skey or blk.key_selector != sel:
                out.fail("C09.unpack", "differs", "unpack returned key %s selector %r (expected %s, %d)"
                         % (k2.hex(), blk.key_selector, skey.hex(), sel))
            # read-modify-write with one list: the decryptor object that just unwrapped a block wraps the next one
            try:
                skey2 = bytes(b ^ 0x5A for b in skey)
                raw3 = bf.InitEccAuthBlock(sel).pack(skey2, [dec])
                k3r = prov.device_unwrap(bspec, 3, raw3)
            except Exception as e:
                out.fail("C09.device", "pack-after-unpack-" + type(e).__name__, "packing with the decryptor object that "
                         "just unpacked a block failed: %s" % e)
            else:
                out.probes["pack-after-unpack-same-object"] += 1
                if k3r != skey2:
                    out.fail("C09.device", "pack-after-unpack-wrong-key", "a block packed with the EccDecryptor object "
                             "that had just unpacked another block is not addressed to the recipient: the recipient "
                             "recovers %s, session key is %s" % (k3r.hex(), skey2.hex()))
            # read, then save again without naming a recipient: the block object that came out of unpack (opened with
            # the test key) packs to BALTECH's published key of its selector
            try:
                skey4 = bytes(b ^ 0xC3 for b in skey)
                obs.generated.clear()
                raw4 = blk.pack(skey4, [])
                k4 = prov.device_unwrap({"t": "ecc", "sel": sel, "recip": None}, 3, raw4,
                                        eph_scalar=obs.generated[-1][0])
            except Exception as e:
                out.fail("C09.device", "repack-default-" + type(e).__name__, "a block that was opened with a private key "
                         "and packed again without recipient is not addressed to the published key of selector %d: %s"
                         % (sel, e))
            else:
                out.probes["opened-block-packed-without-recipient"] += 1
                if k4 != skey4:
                    out.fail("C09.device", "repack-default-wrong-key", "a block that was opened with a private key and "
                             "packed again without recipient: the published key of selector %d recovers %s, session "
                             "key is %s" % (sel, k4.hex(), skey4.hex()))
            # ---- faulted arm ----
            if case["damage"]:
                dm = case["damage"]
                bad_pt = _damage(raw[2:66], dm, case["rng"])
                bad = raw[:2] + bad_pt + raw[66:]
                out.fired["point-" + dm[0]] += 1
                q = refp256.parse_raw(bad_pt)
                valid = refp256.on_curve(q) and q != (0, 0)
                if dm[0] in ("x>=p", "y>=p", "x=p"):
                    out.probes["point-coordinate-ge-p"] += 1
                if dm[0] == "zero":
                    out.probes["point-zero"] += 1
                try:
                    blk, k3 = bf.InitEccAuthBlock.unpack(bad, [dec])
                    res = "returned"
                except Exception as e:
                    res = "raised"
                    # the caller tries the same block again with the same decryptor object
                    try:
                        blk, k3 = bf.InitEccAuthBlock.unpack(bad, [dec])
                        res = "returned"
                        out.probes["second-attempt-differs-from-first"] += 1
                    except Exception:
                        out.probes["invalid-block-presented-twice"] += 1
                out.ev("damaged", dm[0], valid, res)
                if not valid:
                    if res == "returned":
                        out.fail("C09.invalid-point-accepted", dm[0],
                                 "unwrapping accepted an ephemeral point that is not a valid P-256 point (%s) and "
                                 "returned a key" % dm[0])
                    else:
                        out.probes["point-off-curve-rejected"] += 1
                else:
                    out.probes["point-negated-still-on-curve"] += 1
                    if res == "returned":
                        exp = refaes.cbc_dec(refp256.ecies_key(case["recip"], q), bytes(16), raw[66:82])
                        if k3 != exp:
                            out.fail("C09.unpack", "valid-point-wrong-key", "for a valid (changed) point the real "
                                     "decryptor returned %s, device model %s" % (k3.hex(), exp.hex()))
    finally:
        env.restore_registry()
    return out


def shrink(case):
    if case.get("conc"):
        pre = case["preempt"]
        for i in range(len(pre)):
            yield dict(case, preempt=pre[:i] + pre[i + 1:])
        return
    if case["damage"]:
        yield dict(case, damage=None)
    if case["eph"] is not None:
        yield dict(case, eph=None)
    if case["recip"] is not None and case["recip"] != 5:
        yield dict(case, recip=5)
    if case["sel"]:
        yield dict(case, sel=0)
    if case["skey"] != "11" * 16:
        yield dict(case, skey="11" * 16)
