"""C01 — BF3 write-then-read returns the same file.
Fault-free configuration of the E-store simulation (C04 is the fault-injecting one):
histories of write / overwrite / failed-write+retry / restart / read over a SimFS."""
from sim import env
from sim import gen as G
from sim.core import Outcome, exc_site
from sim.simfs import SimFS, SimCrash

ID = "C01"
LEVEL = "exploration"
ENGINE = "E-store"
TECHNIQUE = "deterministic simulation: seeded write/overwrite/failed-write/restart/read histories on a simulated medium (fault-free oracle configuration), reference model = the generated spec; plus a concurrent-callers arm under the deterministic thread scheduler"
DESIGN_REF = "DESIGN.md section 6, C01"
LEVEL_TEXT = ("seeded search over operation histories on a simulated medium: every acknowledged write is read back "
              "(path and stream, MAC checking on and off, after overwrite, after an unacknowledged failed write and "
              "retry, after restart) and compared with the generating spec; sampling, not exhaustive")
LEVEL_NOTE = ("trusts the SimFS text layer to behave like open(): volatile until close/flush, newline translation; "
              "input shapes are those of the seeded generator")
RUNS = {"quick": 9000, "thorough": 200000}
OPTIMIZED_PASS = {"quick": 600, "thorough": 6000}   # extra runs under PYTHONOPTIMIZE=1 (assert statements removed)
RULE = ("seeded histories of 1-7 operations (write via path/stream, overwrite, unacknowledged "
        "ENOSPC write or writer crash + retry, restart, read via path/stream with MAC checking on/off) over a "
        "simulated medium with 1-3 file names; a run is non-trivial when at least one acknowledged "
        "write was read back; distinct = distinct event-log digests")
REAL = ["bec2format.bf3file (writer, reader, text envelope)", "bec2format.bytes_reader",
        "register_crypto_plugin.AES128Proxy", "pyaes"]
STUBS = ["medium: SimFS/SimTextWriter/SimTextReader (volatile until close/flush, CRLF translation)",
         "thread scheduling of the concurrent-callers arm: Sched (sim/sched.py, sim/conc.py)"]
PROBES = ["runs-with-assertions-disabled", "refused-object-over-existing-file", "file-of-several-hundred-KiB", "same-component-object-twice", "more-than-255-components", "concurrent-callers", "concurrent-callers-same-key", "rewrite-of-read-back-object", "unchecked-read-with-other-key", "read-after-overwrite-shorter", "read-after-failed-write-retry", "crlf-on-medium",
          "payload-multiple-of-16", "payload-trailing-zero", "writer-rejected-oversize",
          "read-after-restart"]
ASSUMPTIONS = ["input breadth is that of the seeded generator (sampling)",
               "component/ENC-tag combinations are generated consistent (flag set iff tag says so)"]

NAMES = ["a.bf3", "b.bf3", "c.bf3"]


def gen(st, tier):
    w = st["workload"]
    if w.random() < 0.035:
        # concurrent callers: each thread writes and reads back its own file, the simulator owns the switches
        from sim import conc
        n = w.choice([2, 2, 3])
        k = G.session_key_spec(w)
        pre, ch = conc.sched_spec(st["schedule"])
        return {"conc": True, "objs": [G.bf3_spec(w, max_comps=2, max_len=70, allow_many=False) for _ in range(n)],
                "keys": [k if w.random() < 0.8 else G.session_key_spec(w) for _ in range(n)],
                "preempt": pre, "choices": ch}
    if w.random() < 0.0004:
        # one very large image (hundreds of KiB of hex text)
        big = {"comments": [["FirmwareId", "1100"]], "components": [
            {"desc": [[0xC3, "02"]], "blob": {"len": w.randint(400000, 420000), "fill": "rand", "tail0": 0,
                                              "s": w.getrandbits(32)}, "alen": None, "enc": False}]}
        return {"objs": [big], "keys": [G.session_key_spec(w)], "huge": True,
                "ops": [["write", "a.bf3", 0, 0, w.choice(["path", "stream"]), None],
                        ["read", "a.bf3", w.choice(["path", "stream"]), True, None]]}
    nobj = w.choice([1, 1, 2, 3])
    objs = [G.bf3_spec(w, p_enc=0.0, max_len=300 if w.random() < 0.8 else 1500,
                         oversize_ok=True) for _ in range(nobj)]
    keys = [G.session_key_spec(w) for _ in range(w.choice([1, 2]))]
    names = NAMES[: w.choice([1, 1, 2, 3])]
    ops = []
    nops = w.choice([2, 3, 4, 5, 6, 7])
    written = []
    for _ in range(nops):
        r = w.random()
        if not written or r < 0.40:
            name = w.choice(names)
            fault = None
            if w.random() < 0.07:
                fault = ["enospc", w.randint(0, 6), w.randint(0, 30)]
            elif w.random() < 0.05:
                # the writer process dies in write call k with only `keep` bytes on the medium
                fault = ["crash", w.randint(0, 6), w.randint(0, 200)]
            ops.append(["write", name, w.randrange(nobj), w.randrange(len(keys)),
                        w.choice(["path", "path", "stream", "stream-crlf"]), fault])
            if fault and w.random() < 0.8:
                ops.append(["write", name, ops[-1][2], ops[-1][3], w.choice(["path", "stream"]), None])
            written.append(name)
        elif r < 0.5:
            ops.append(["restart"])
        elif r < 0.62 and written:
            # the object returned by a read is written again, possibly under another key
            src = w.choice(written)
            ops.append(["read", src, w.choice(["path", "stream"]), False, w.randrange(len(keys))])
            dst = w.choice(names)
            ops.append(["rewrite", src, dst, w.randrange(len(keys)), w.choice(["path", "stream"])])
            ops.append(["read", dst, w.choice(["path", "stream"]), True, None])
            written.append(dst)
        else:
            check = w.random() < 0.7
            ops.append(["read", w.choice(written), w.choice(["path", "stream"]), check,
                        None if check or w.random() < 0.5 else w.randrange(len(keys))])
    if written and not any(o[0] == "read" for o in ops):
        ops.append(["read", written[-1], "path", True])
    return {"objs": objs, "keys": keys, "ops": ops}


def _run_conc(case):
    import hashlib
    from sim import conc
    out = Outcome()
    holders = []

    def make_bodies(s):
        fs = SimFS()
        env.use_fs(fs)
        holders.append(fs)

        def body(i):
            def fn():
                spec = case["objs"][i]
                key = bytes.fromhex(case["keys"][i])
                name = "t%d.bf3" % i
                obj = G.build_bf3(spec, env)
                h = fs.open(name, "w")
                try:
                    obj.write_file(h, key)
                finally:
                    h.close()
                got = env.bf3file.Bf3File.read_file(name, True, key)
                return (G.compare_bf3(G.model_of(spec), got), hashlib.sha256(fs.files[name]).hexdigest()[:16])
            return fn
        return [body(i) for i in range(len(case["objs"]))]
    try:
        dry, cc, pre = conc.run_conc(make_bodies, case["preempt"], case["choices"], first=0)
    finally:
        env.restore_registry()
    if any(t.exc is not None or (t.result and t.result[0]) for t in dry.threads):
        out.ev("sequential-fails")      # not a schedule matter: the sequential histories decide that
        return out
    npre = sum(1 for d in cc.decisions if d[3] == "preempt")
    out.fired["preempt"] += npre
    out.nontrivial = npre > 0
    out.probes["concurrent-callers"] += 1
    if len(set(case["keys"])) < len(case["keys"]):
        out.probes["concurrent-callers-same-key"] += 1
    out.ev("conc", tuple(cc.decisions), [t.result and t.result[1] for t in cc.threads], cc.aborted)
    narrow = dict(case, preempt=[["abs", p] if isinstance(p, int) else list(p) for p in pre])
    if cc.aborted:
        out.fail("C01.concurrent", "aborted-" + cc.aborted, "concurrent run aborted: " + cc.aborted, narrow)
        return out
    for i, (t, d) in enumerate(zip(cc.threads, dry.threads)):
        if t.exc is not None:
            out.fail("C01.concurrent", "raises-" + type(t.exc).__name__,
                     "thread %d: write+read of its own file raised %r under schedule %s (not when run alone)"
                     % (i, t.exc, cc.decisions), narrow)
        elif t.result[0]:
            out.fail("C01.concurrent", "differs-" + t.result[0][0], "thread %d: %s under schedule %s"
                     % (i, t.result[0][1], cc.decisions), narrow)
        elif t.result[1] != d.result[1]:
            out.fail("C01.concurrent", "written-text-differs", "thread %d wrote a different text than when run "
                     "alone (schedule %s)" % (i, cc.decisions), narrow)
    return out


def run(case):
    if case.get("conc"):
        return _run_conc(case)
    out = Outcome()
    fs = SimFS()
    env.restore_registry()
    env.use_fs(fs)
    acked = {}  # name -> (obj index, key index) | None
    hist = {}   # name -> info about history for probes
    lastread = {}  # name -> (object returned by the last read, obj index)
    if case.get("huge"):
        out.probes["file-of-several-hundred-KiB"] += 1
    try:
        for op in case["ops"]:
            if op[0] == "restart":
                fs.restart()
                out.ev("restart")
                for h in hist.values():
                    h["restarted"] = True
                continue
            if op[0] == "write":
                _, name, oi, ki, via, fault = op
                spec = case["objs"][oi]
                key = bytes.fromhex(case["keys"][ki])
                obj = G.build_bf3(spec, env)
                fs.plan[name] = {fault[1]: (fault[0], fault[2])} if fault else {}
                nfired = len(fs.fired)
                prev = acked.get(name)
                prev_len = len(fs.files.get(name, b""))
                try:
                    if via == "path":
                        obj.write_file(name, key)
                    else:
                        h = fs.open(name, "w", newline="\r\n" if via == "stream-crlf" else None)
                        try:
                            obj.write_file(h, key)
                        finally:
                            h.close()
                except SimCrash:
                    # the writer died: nothing acknowledged, the process restarts
                    acked[name] = None
                    fs.restart()
                    out.fired["crash"] += 1
                    hist.setdefault(name, {})["failed"] = True
                    out.ev("write", name, via, "crashed", len(fs.files.get(name, b"")))
                    continue
                except Exception as e:
                    fired = len(fs.fired) > nfired
                    if fired or via != "path" or prev is None:
                        acked[name] = None
                    else:
                        # the writer refused the object itself (nothing was injected): what the path held
                        # before must still be there - the writer never leaves a file its reader rejects
                        out.probes["refused-object-over-existing-file"] += 1
                    out.ev("write", name, via, "failed", type(e).__name__, fired)
                    if fired:
                        out.fired["enospc"] += 1
                        hist.setdefault(name, {})["failed"] = True
                    elif G.desc_size_max(spec) > 210:
                        out.probes["writer-rejected-oversize"] += 1
                    continue
                if len(fs.fired) > nfired:
                    # the medium reported an error and the writer returned normally:
                    # nothing was acknowledged correctly -> no demand, but note it
                    acked[name] = None
                    out.ev("write", name, via, "swallowed-io-error")
                    continue
                acked[name] = (oi, ki)
                h = hist.setdefault(name, {})
                h["shorter"] = len(fs.files[name]) < prev_len and prev is not None
                h["retry"] = bool(h.pop("failed", False))
                h["restarted"] = False
                if b"\r\n" in fs.files[name]:
                    out.probes["crlf-on-medium"] += 1
                out.ev("write", name, via, "ok", len(fs.files[name]))
                continue
            if op[0] == "rewrite":
                _, src, name, ki, via = op
                if src not in lastread:
                    out.ev("rewrite-skipped")
                    continue
                obj, oi = lastread[src]
                key = bytes.fromhex(case["keys"][ki])
                fs.plan[name] = {}
                try:
                    if via == "path":
                        obj.write_file(name, key)
                    else:
                        h = fs.open(name, "w")
                        try:
                            obj.write_file(h, key)
                        finally:
                            h.close()
                except Exception as e:
                    out.fail("C01.rewrite-raises", exc_site(e), "writing a read-back object again raised %s: %s"
                             % (type(e).__name__, e))
                    acked[name] = None
                    continue
                acked[name] = (oi, ki)
                hist[name] = {"rewritten": True}
                out.probes["rewrite-of-read-back-object"] += 1
                out.ev("rewrite", src, name, ki)
                continue
            # read
            _, name, via, check = op[:4]
            rk = op[4] if len(op) > 4 else None
            st = acked.get(name)
            if st is None:
                out.ev("read", name, via, "skipped-unacked")
                continue
            oi, ki = st
            spec = case["objs"][oi]
            key = bytes.fromhex(case["keys"][ki])
            if rk is not None and not check:
                # MAC checking off: plain components read the same under any key
                key = bytes.fromhex(case["keys"][rk])
                if rk != ki:
                    out.probes["unchecked-read-with-other-key"] += 1
            model = G.model_of(spec)
            try:
                if via == "path":
                    got = env.bf3file.Bf3File.read_file(name, check, key)
                else:
                    h = fs.open(name, "r")
                    try:
                        got = env.bf3file.Bf3File.read_file(h, check, key)
                    finally:
                        h.close()
            except SimCrash:
                raise
            except Exception as e:
                out.fail("C01.read-raises", exc_site(e),
                         "read(%s via %s, check_cmac=%s) of an acknowledged write raised %s: %s"
                         % (name, via, check, type(e).__name__, e))
                out.ev("read", name, via, "raised", type(e).__name__)
                continue
            diff = G.compare_bf3(model, got)
            lastread[name] = (got, oi)
            out.nontrivial = True
            hh = hist.get(name, {})
            if hh.get("shorter"):
                out.probes["read-after-overwrite-shorter"] += 1
            if hh.get("retry"):
                out.probes["read-after-failed-write-retry"] += 1
            if hh.get("restarted"):
                out.probes["read-after-restart"] += 1
            if spec.get("alias_first"):
                out.probes["same-component-object-twice"] += 1
            if len(model["components"]) > 255:
                out.probes["more-than-255-components"] += 1
            for c in model["components"]:
                if len(c["blob"]) % 16 == 0:
                    out.probes["payload-multiple-of-16"] += 1
                if c["blob"].endswith(b"\0"):
                    out.probes["payload-trailing-zero"] += 1
            if diff:
                out.fail("C01.read-differs", diff[0],
                         "read(%s via %s, check_cmac=%s): %s" % (name, via, check, diff[1]))
                out.ev("read", name, via, "differs")
            else:
                out.ev("read", name, via, "equal")
    finally:
        env.restore_registry()
    return out


def shrink(case):
    if case.get("conc"):
        pre = case["preempt"]
        for i in range(len(pre)):
            yield dict(case, preempt=pre[:i] + pre[i + 1:])
        if len(case["objs"]) > 2:
            for i in range(len(case["objs"])):
                yield dict(case, objs=case["objs"][:i] + case["objs"][i + 1:], keys=case["keys"][:i] + case["keys"][i + 1:])
        for oi, spec in enumerate(case["objs"]):
            for ns in G.spec_shrinks(spec):
                yield dict(case, objs=case["objs"][:oi] + [ns] + case["objs"][oi + 1:])
        return
    ops = case["ops"]
    for i in range(len(ops)):
        yield dict(case, ops=ops[:i] + ops[i + 1:])
    for i, op in enumerate(ops):
        if op[0] == "write" and op[5] is not None:
            yield dict(case, ops=ops[:i] + [op[:5] + [None]] + ops[i + 1:])
    for k in range(len(case["keys"])):
        if case["keys"][k] != "00" * 16:
            yield dict(case, keys=case["keys"][:k] + ["00" * 16] + case["keys"][k + 1:])
    for oi, spec in enumerate(case["objs"]):
        for ns in G.spec_shrinks(spec):
            yield dict(case, objs=case["objs"][:oi] + [ns] + case["objs"][oi + 1:])
