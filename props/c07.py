"""C07 — one fresh session key per file, wrapped identically by every auth block.
E-hist over E-prov: histories of file creations, repeated writes, restart+read with
decryptor subsets, rewrite of read-back objects and *spliced headers* (a block of one
file lands in the header of another: misdirected sectors), with the RNG and the key
generator behind seams so that freshness is decidable."""
from sim import env, files, prov, refp256
from sim import gen as G
from sim.core import Outcome, exc_site, rbytes
from sim.simfs import SimFS, SimCrash

ID = "C07"
LEVEL = "exploration"
ENGINE = "E-prov"
TECHNIQUE = ("deterministic simulation: seeded operation histories over several BEC2 files on a simulated medium, RNG stub "
             "that never repeats + key-generation observer (freshness becomes decidable), independent device model unwraps "
             "every block after every write, header splices as storage faults, restart between write and read")
DESIGN_REF = "DESIGN.md section 6, C07"
LEVEL_TEXT = ("seeded search over operation histories (create / add block / write / repeated write / restart+read with a "
              "decryptor subset / rewrite / splice) with invariants checked after every step; sampling of histories")
LEVEL_NOTE = ("device check is lenient about container framing (C08's subject): it needs the session key at the documented "
              "offset after an independent AES-CBC / ECIES unwrap; ephemeral scalars are observed, never predicted")
RUNS = {"quick": 2000, "thorough": 60000}
OPTIMIZED_PASS = {"quick": 150, "thorough": 2000}   # extra runs under PYTHONOPTIMIZE=1 (assert statements removed)
RULE = ("per run a history of 3-9 operations over up to 3 BEC2 files sharing a pool of secrets; after every write the device "
        "model unwraps each block; reads use seeded decryptor subsets; splices replace one block value by the same-kind "
        "block of another file; evaluations = operations executed; non-trivial = at least one write was unwrapped by the "
        "device model; distinct = digests of (operation outcomes, draw counts, header block tags)")
REAL = ["bec2format.bec2file", "bec2format.bf3file", "bec2format.crypto", "register_crypto_plugin", "pyaes", "ecdsa"]
STUBS = ["medium: SimFS", "RNG: SimRng (never repeats, logs call-site class)", "key-generation observer",
         "device model: RefAES/RefCRC/RefP256"]
PROBES = ["unknown-block-with-empty-value", "two-threads-own-objects", "runs-with-assertions-disabled", "public-only-entry-while-reading", "peer-returns-short-key-payload", "block-with-unknown-tag", "writer-keystore", "same-object-two-writer-threads", "fork-child-and-parent-draw-keys", "bf3-object-shared-between-files", "splice-insert-same-tag", "keyless-constructor", "repeated-write-same-object", "rewrite-with-opaque-block", "splice-different-keys",
          "splice-equal-keys", "splice-rejected", "ecc-default-recipient-unwrapped", "three-blocks-unwrapped",
          "two-files-distinct-keys", "ephemeral-points-compared"]
ASSUMPTIONS = ["'rejected' for a spliced header means: read with decryptors for both blocks raises"]


def _pool(w):
    pool = [
        {"t": "cust", "aes": rbytes(w, 16).hex(), "ck": rbytes(w, 10).hex() if w.random() < 0.5 else None},
        {"t": "ecc", "sel": w.randrange(4), "recip": prov.scalar_spec(w)},
        {"t": "ecc", "sel": w.randrange(4), "recip": None},
        {"t": "upd", "code": rbytes(w, 8).hex(), "ver": w.randrange(256)},
    ]
    pool.append({"t": "ecc", "sel": (pool[1]["sel"] + w.choice([1, 2, 3])) % 4, "recip": prov.scalar_spec(w)})
    return pool


def gen(st, tier):
    w = st["workload"]
    if w.random() < 0.04:
        # two threads write the SAME freshly created keyless Bec2File at once
        from sim import conc
        pre, ch = conc.sched_spec(st["schedule"])
        return {"conc": True, "aes": rbytes(w, 16).hex(), "code": rbytes(w, 8).hex(), "ver": w.randrange(256),
                "obj": G.bf3_spec(w, max_comps=1, p_enc=0.3, max_len=40, allow_many=False), "rng": w.getrandbits(32),
                "preempt": pre, "choices": ch}
    if w.random() < 0.06:
        # two threads that share NOTHING: each writes its own package for its own ECC recipient
        from sim import conc
        r = st["schedule"]
        # pre-emption points: lines of the registered plug-in (the layer that hands keys to the crypto libraries)
        pre = [["shallow", r.randrange(2), r.random()] for _ in range(r.choice([1, 2, 3, 4]))]
        if r.random() < 0.4:
            pre.append(["frac", r.random()])
        return {"conc": True, "separate": True,
                "files": [{"blocks": [{"t": "ecc", "sel": w.randrange(4), "recip": prov.scalar_spec(w)},
                                      {"t": "upd", "code": rbytes(w, 8).hex(), "ver": w.randrange(256)}],
                           "key": G.session_key_spec(w, allow_default=False),
                           "obj": G.bf3_spec(w, max_comps=1, p_enc=0.3, max_len=40, allow_many=False)}
                          for _ in range(2)],
                "rng": w.getrandbits(32), "preempt": pre, "choices": [r.randrange(1000) for _ in range(12)],
                "first": r.randrange(2)}
    pool = _pool(w)
    objs = [G.bf3_spec(w, max_comps=2, p_enc=0.3, max_len=80) for _ in range(2)]
    ops = []
    files_ = {}   # f -> block idx list
    names = []
    nops = w.choice([3, 4, 5, 6, 7, 9])
    shared_key = G.session_key_spec(w, allow_default=False)
    for step in range(nops):
        r = w.random()
        if not files_ or (r < 0.25 and len(files_) < 3):
            f = len(files_)
            kinds = [0, w.choice([1, 2, 4]), 3]
            w.shuffle(kinds)
            blocks = kinds[: w.choice([1, 2, 2, 3])]
            key = None if w.random() < 0.6 else (shared_key if w.random() < 0.6 else G.session_key_spec(w, False))
            files_[f] = blocks
            ops.append(["new", f, key, blocks, w.randrange(len(objs))])
            ops.append(["write", f, "f%d.bec2" % f])
            names.append("f%d.bec2" % f)
        elif r < 0.40:
            f = w.choice(list(files_))
            ops.append(["write", f, "f%d.bec2" % f])
            if w.random() < 0.15:
                ops.append(["fork_new", w.randrange(len(objs))])
        elif r < 0.50:
            f = w.choice(list(files_))
            cand = [b for b in (0, 1, 2, 3, 4) if b not in files_[f]
                    and not (b in (1, 2, 4) and any(x in files_[f] for x in (1, 2, 4)))]
            if cand:
                b = w.choice(cand)
                files_[f] = files_[f] + [b]
                ops.append(["add", f, b])
                ops.append(["write", f, "f%d.bec2" % f])
        elif r < 0.75:
            n = w.choice(names)
            f = int(n[1])
            able = [b for b in files_[f] if b != 2]
            if able:
                k = w.randint(1, len(able))
                sub = sorted(w.sample(able, k))
                ops.append(["read", n, sub])
                if w.random() < 0.6:
                    ops.append(["rewrite", n, "r%d.bec2" % f])
        elif r < 0.88:
            if len(files_) >= 2:
                fa, fb = w.sample(list(files_), 2)
                common = [b for b in files_[fa] if b in files_[fb] and b != 2]
                if common:
                    ops.append(["splice", "f%d.bec2" % fa, "f%d.bec2" % fb, w.choice(common)])
        else:
            if len(files_) >= 2:
                fa, fb = w.sample(list(files_), 2)
                cand = [b for b in files_[fa] if b != 2]
                if cand and any(b != 2 for b in files_[fb]):
                    ops.append(["splice_insert", "f%d.bec2" % fa, "f%d.bec2" % fb, w.choice(cand),
                                w.choice(["front", "end"])])
    return {"pool": pool, "objs": objs, "ops": ops, "rng": w.getrandbits(32), "share": w.random() < 0.5,
            "keystore": w.random() < 0.4}


def _body_ok(binary, body_off, key, model):
    """the real reader, given the key, accepts the body with MAC checking on"""
    rdr = env.bytes_reader.BytesReader(binary, "BF3 files Binary Data")
    rdr.seek(body_off)
    got = env.bf3file.Bf3File.from_binary(rdr, dict(model["comments"]), True, key)
    return G.compare_bf3(model, got)


def _run_separate(case):
    """two threads, each with its own objects (package, key, recipient, encryptors): every block of either file
    must still wrap that file's key"""
    from sim import conc
    out = Outcome()
    bf = env.bec2file
    state = {}

    def make_bodies(s):
        fs = SimFS()
        env.use_fs(fs)
        env.install_rng(prov.SimRng(case["rng"]))
        state["fs"] = fs
        state["becs"] = []
        bodies = []
        for i, fsp in enumerate(case["files"]):
            abs_, wenc, dec = prov.build_blocks(fsp["blocks"], env)
            bec = bf.Bec2File(G.build_bf3(fsp["obj"], env), abs_, bytes.fromhex(fsp["key"]))
            state["becs"].append(bec)

            def fn(i=i, bec=bec, wenc=wenc):
                h = fs.open("s%d.bec2" % i, "w")
                try:
                    bec.write_file(h, wenc)
                finally:
                    h.close()
                return True
            bodies.append(fn)
        return bodies
    try:
        dry, cc, pre = conc.run_conc(make_bodies, case["preempt"], case["choices"], first=case.get("first", 0),
                                     shallow=conc.plugin_files())
        fs = state["fs"]
        npre = sum(1 for d in cc.decisions if d[3] == "preempt")
        out.fired["preempt"] += npre
        out.nontrivial = npre > 0
        out.probes["two-threads-own-objects"] += 1
        out.ev("separate", tuple(cc.decisions), cc.aborted)
        narrow = dict(case, preempt=[["abs", p] if isinstance(p, int) else list(p) for p in pre])
        if any(t.exc is not None for t in dry.threads):
            out.ev("sequential-raises")
            return out
        if cc.aborted or any(t.exc is not None for t in cc.threads):
            out.fail("C07.concurrent", "separate-raises", "two threads writing their own packages: %s %s" % (
                cc.aborted, [t.exc for t in cc.threads]), narrow)
            return out
        for i, fsp in enumerate(case["files"]):
            want = bytes.fromhex(fsp["key"])
            head, binary = files.binary_of(fs.files["s%d.bec2" % i])
            hdr, body_off = prov.parse_header(binary)
            for (tag, val), sp in zip(hdr, fsp["blocks"]):
                try:
                    k = prov.device_unwrap(sp, tag, val)
                except ValueError as e:
                    out.fail("C07.device", "separate-unwrap-" + sp["t"], "file %d: %s (schedule %s)" % (i, e, cc.decisions),
                             narrow)
                    continue
                if k != want:
                    out.fail("C07.same-key", "separate-" + sp["t"], "file %d written while another thread wrote its own "
                             "package: the %s block wraps %s, the file's session key is %s (schedule %s)"
                             % (i, sp["t"], k.hex(), want.hex(), cc.decisions), narrow)
    finally:
        env.restore_registry()
    return out


def _run_conc(case):
    if case.get("separate"):
        return _run_separate(case)
    from sim import conc
    out = Outcome()
    bf = env.bec2file
    state = {}

    def make_bodies(s):
        fs = SimFS()
        env.use_fs(fs)
        rng = prov.SimRng(case["rng"])
        env.install_rng(rng)
        cust = bf.SoftwareCustKeyEncryptor(bytes.fromhex(case["aes"]))
        bec = bf.Bec2File(G.build_bf3(case["obj"], env),
                          [bf.InitCustKeyAuthBlock(), bf.UpdateAuthBlock(bytes.fromhex(case["code"]), case["ver"])], None)
        state["fs"], state["bec"] = fs, bec

        def body(i):
            def fn():
                h = fs.open("w%d.bec2" % i, "w")
                try:
                    bec.write_file(h, [cust])
                finally:
                    h.close()
                return True
            return fn
        return [body(0), body(1)]
    try:
        dry, cc, pre = conc.run_conc(make_bodies, case["preempt"], case["choices"], first=0)
        fs, bec = state["fs"], state["bec"]
        npre = sum(1 for d in cc.decisions if d[3] == "preempt")
        out.fired["preempt"] += npre
        out.nontrivial = npre > 0
        out.probes["same-object-two-writer-threads"] += 1
        out.ev("conc", tuple(cc.decisions), cc.aborted)
        narrow = dict(case, preempt=[["abs", p] if isinstance(p, int) else list(p) for p in pre])
        if any(t.exc is not None for t in dry.threads):
            out.ev("sequential-raises")
            return out
        if cc.aborted or any(t.exc is not None for t in cc.threads):
            out.fail("C07.concurrent", "raises", "two threads writing the same Bec2File: %s %s" % (
                cc.aborted, [t.exc for t in cc.threads]), narrow)
            return out
        specs = [{"t": "cust", "aes": case["aes"], "ck": None}, {"t": "upd", "code": case["code"], "ver": case["ver"]}]
        model = G.snapshot_bf3(bec.bf3file)
        for i in range(2):
            head, binary = files.binary_of(fs.files["w%d.bec2" % i])
            hdr, body_off = prov.parse_header(binary)
            keys = []
            for (tag, val), sp in zip(hdr, specs):
                try:
                    keys.append(prov.device_unwrap(sp, tag, val))
                except ValueError as e:
                    out.fail("C07.device", "concurrent-unwrap-" + sp["t"], "file %d: %s" % (i, e), narrow)
            if len(set(keys)) > 1:
                out.fail("C07.same-key", "concurrent", "file %d written by one of two concurrent writers of the same "
                         "object: its blocks wrap different keys %s (schedule %s)" % (i, [k.hex() for k in keys], cc.decisions),
                         narrow)
            elif keys:
                if keys[0] != bec.session_key:
                    out.fail("C07.same-key", "concurrent-not-object-key", "file %d wraps %s, the object's session key is %s"
                             % (i, keys[0].hex(), bec.session_key.hex()), narrow)
                try:
                    diff = _body_ok(binary, body_off, keys[0], model)
                except Exception as e:
                    out.fail("C07.body", "concurrent-rejected", "file %d: the key its blocks wrap does not authenticate the "
                             "directory: %s" % (i, e), narrow)
                else:
                    if diff:
                        out.fail("C07.body", "concurrent-" + diff[0], diff[1], narrow)
    finally:
        env.restore_registry()
    return out


def run(case):
    if case.get("conc"):
        return _run_conc(case)
    out = Outcome()
    fs = SimFS()
    env.restore_registry()
    env.use_fs(fs)
    bf = env.bec2file
    pool = case["pool"]
    rng = prov.SimRng(case["rng"])
    env.install_rng(rng)
    obs = prov.KeyGenObserver(env)
    obs.install()
    try:
        abs_all, wenc_all, dec_all = prov.build_blocks(pool, env)
        # a host keeps its encryptor objects across writes: build them once per history
        wenc_by = dict(_writer_encryptors(pool, range(len(pool)), set(range(len(pool))), env))
        objs = {}       # f -> real Bec2File
        fblocks = {}    # f -> pool indices in header order
        written = {}    # name -> info
        lastread = {}   # name -> (object, subset)
        keys_drawn = []
        points = []
        shared = {}
        used = []      # (draw index, start, end) of RNG output bytes already turned into a session key
        nforks = 0
        nops = 0
        for op in case["ops"]:
            nops += 1
            kind = op[0]
            if kind == "new":
                _, f, key, blocks, oi = op
                n0 = len(rng.draws)
                if case.get("share"):
                    # one package object issued to several files (a host re-using its Bf3File)
                    if oi not in shared:
                        shared[oi] = G.build_bf3(case["objs"][oi], env)
                    else:
                        out.probes["bf3-object-shared-between-files"] += 1
                    bf3 = shared[oi]
                else:
                    bf3 = G.build_bf3(case["objs"][oi], env)
                blks = []
                for b in blocks:
                    p = pool[b]
                    if p["t"] == "cust":
                        blks.append(bf.InitCustKeyAuthBlock())
                    elif p["t"] == "ecc":
                        blks.append(bf.InitEccAuthBlock(p["sel"]))
                    else:
                        blks.append(bf.UpdateAuthBlock(bytes.fromhex(p["code"]), p["ver"]))
                obj = bf.Bec2File(bf3, blks, bytes.fromhex(key) if key else None)
                objs[f] = obj
                fblocks[f] = list(blocks)
                nd = rng.draws[n0:]
                out.ev("new", f, bool(key), len(nd))
                if key is None:
                    out.probes["keyless-constructor"] += 1
                    _check_fresh(out, rng, obj.session_key, used)
                    if len(obj.session_key) != 16:
                        out.fail("C07.fresh-key", "length", "drawn session key has %d bytes" % len(obj.session_key))
                    if obj.session_key in keys_drawn:
                        out.fail("C07.fresh-key", "repeated", "two files created without key share session key %s"
                                 % obj.session_key.hex())
                    keys_drawn.append(obj.session_key)
                    if len(keys_drawn) >= 2:
                        out.probes["two-files-distinct-keys"] += 1
                elif obj.session_key != bytes.fromhex(key):
                    out.fail("C07.given-key", "ignored", "supplied session key not used")
                continue
            if kind == "fork_new":
                import os as _os
                nforks += 1
                bf3c = G.build_bf3(case["objs"][op[1]], env)
                rfd, wfd = _os.pipe()
                pid = _os.fork()
                if pid == 0:
                    # child process: same library state, but the OS RNG stream is its own
                    try:
                        rng.reseed_for_child(nforks)
                        child = bf.Bec2File(bf3c, [], None)
                        _os.write(wfd, bytes(child.session_key))
                    finally:
                        _os._exit(0)
                _os.close(wfd)
                ckey = _os.read(rfd, 64)
                _os.close(rfd)
                _os.waitpid(pid, 0)
                parent = bf.Bec2File(bf3c, [], None)
                out.fired["fork"] += 1
                out.probes["fork-child-and-parent-draw-keys"] += 1
                out.ev("fork_new", len(ckey))
                if len(ckey) != 16:
                    out.fail("C07.fresh-key", "fork-child-failed", "forked child produced no session key")
                elif ckey == parent.session_key or ckey in keys_drawn:
                    out.fail("C07.fresh-key", "fork-same-key", "after a fork, child and parent (or an earlier file) "
                             "use the same 'fresh' session key %s" % ckey.hex())
                _check_fresh(out, rng, parent.session_key, used)
                keys_drawn.append(parent.session_key)
                keys_drawn.append(ckey)
                continue
            if kind == "add":
                _, f, b = op
                p = pool[b]
                if p["t"] == "cust":
                    objs[f].add_auth_block(bf.InitCustKeyAuthBlock())
                elif p["t"] == "ecc":
                    objs[f].add_auth_block(bf.InitEccAuthBlock(p["sel"]))
                else:
                    objs[f].add_auth_block(bf.UpdateAuthBlock(bytes.fromhex(p["code"]), p["ver"]))
                # dict keyed by tag: a block of an existing kind replaces it in place
                tags = [pool[x]["t"] for x in fblocks[f]]
                if p["t"] in tags:
                    fblocks[f][tags.index(p["t"])] = b
                else:
                    fblocks[f].append(b)
                out.ev("add", f, b)
                continue
            if kind in ("write", "rewrite"):
                if kind == "write":
                    _, f, name = op
                    obj = objs[f]
                    blocks = fblocks[f]
                    opened = set(blocks)
                    if name in written and written[name]["obj"] is obj:
                        out.probes["repeated-write-same-object"] += 1
                else:
                    _, src, name = op
                    if src not in lastread:
                        out.ev("rewrite-skipped")
                        continue
                    obj, sub, blocks = lastread[src]
                    opened = set(sub)
                wenc = [wenc_by[b] for b in blocks if b in opened and b in wenc_by]
                if case.get("keystore"):
                    eccs = [pool[b]["sel"] for b in blocks if pool[b]["t"] == "ecc" and b in opened]
                    if eccs:
                        # the host lists its whole key store: encryptors for the other selectors come first
                        wenc = [e for e, _ in prov.decoys_for(env, eccs[0])] + wenc
                        out.probes["writer-keystore"] += 1
                g0 = len(obs.generated)
                d0 = len(rng.draws)
                try:
                    obj.write_file(name, wenc)
                except SimCrash:
                    raise
                except Exception as e:
                    out.fail("C07.write-raises", exc_site(e), "%s raised %s: %s" % (kind, type(e).__name__, e))
                    continue
                gens = obs.generated[g0:]
                head, binary = files.binary_of(fs.files[name])
                hdr, body_off = prov.parse_header(binary)
                model = G.snapshot_bf3(obj.bf3file)
                written[name] = {"obj": obj, "blocks": list(blocks), "hdr": hdr, "key": obj.session_key,
                                 "model": model, "binary": binary, "head": head, "body_off": body_off}
                out.ev(kind, name, [t for t, _ in hdr], len(gens), len(rng.draws) - d0)
                necc = sum(1 for b in blocks if pool[b]["t"] == "ecc" and b in opened)
                if len(gens) != necc:
                    out.fail("C07.ephemeral", "generations", "%d key generations while writing a file with %d ECC "
                             "block(s) to wrap" % (len(gens), necc))
                if necc and len(rng.draws) == d0:
                    out.fail("C07.ephemeral", "no-draw", "ECC block packed without any RNG draw")
                if len(hdr) != len(blocks):
                    out.fail("C07.header", "block-count", "%d blocks in header, %d in object" % (len(hdr), len(blocks)))
                    continue
                ok_all = True
                for (tag, val), b in zip(hdr, blocks):
                    p = pool[b]
                    if b not in opened:
                        continue   # passed through opaque: checked by the rewrite clause
                    eph = gens[0][0] if (p["t"] == "ecc" and gens) else None
                    try:
                        k = prov.device_unwrap(p, tag, val, eph_scalar=eph)
                    except ValueError as e:
                        out.fail("C07.device", "unwrap-" + p["t"], "device model cannot open the %s block: %s" % (p["t"], e))
                        ok_all = False
                        continue
                    out.nontrivial = True
                    if k != obj.session_key:
                        out.fail("C07.same-key", p["t"], "the %s block wraps %s but the file's session key is %s"
                                 % (p["t"], k.hex(), obj.session_key.hex()))
                        ok_all = False
                    if p["t"] == "ecc":
                        pt = val[2:66]
                        out.probes["ephemeral-points-compared"] += 1
                        if p["recip"] is None:
                            out.probes["ecc-default-recipient-unwrapped"] += 1
                        if pt in points:
                            out.fail("C07.ephemeral", "repeated-point", "the same ephemeral public point was used for "
                                     "two ECC blocks in this history")
                        points.append(pt)
                        if gens and refp256.pub_raw(gens[0][0]) != pt:
                            out.fail("C07.ephemeral", "point-not-generated", "ephemeral point in the block is not the "
                                     "public key of the key pair generated during this write")
                if ok_all and len(blocks) == 3:
                    out.probes["three-blocks-unwrapped"] += 1
                try:
                    diff = _body_ok(binary, body_off, obj.session_key, model)
                except Exception as e:
                    out.fail("C07.body", "rejected", "the reader, given the session key, rejects the body: %s: %s"
                             % (type(e).__name__, e))
                else:
                    if diff:
                        out.fail("C07.body", diff[0], diff[1])
                if kind == "rewrite":
                    src_info = written[op[1]]
                    for i, b in enumerate(blocks):
                        if b not in opened:
                            out.probes["rewrite-with-opaque-block"] += 1
                            if i >= len(hdr) or hdr[i] != src_info["hdr"][i]:
                                out.fail("C07.opaque-kept", pool[b]["t"], "block %d (%s) had no decryptor on read but "
                                         "is not byte-identical after the rewrite" % (i, pool[b]["t"]))
                continue
            if kind == "read":
                _, name, sub = op
                if name not in written:
                    continue
                info = written[name]
                sub = [b for b in sub if b in info["blocks"]]
                if not sub:
                    continue
                fs.restart()
                decs = [dec_all[b] for b in sub if b in dec_all]
                if case.get("keystore"):
                    # the list used for writing is reused for reading: public-key-only ECC encryptors of blocks for
                    # which no private key is supplied are in it too (they cannot open anything)
                    for b in info["blocks"]:
                        if b not in sub and b in wenc_by and type(wenc_by[b]) is bf.EccEncryptor:
                            decs.append(wenc_by[b])
                            out.probes["public-only-entry-while-reading"] += 1
                try:
                    got = bf.Bec2File.read_file(name, decs, True)
                except SimCrash:
                    raise
                except Exception as e:
                    out.fail("C07.read-raises", "%s@%s" % (type(e).__name__, exc_site(e)),
                             "restart+read of %s with decryptors %s raised %s: %s" % (name, sub, type(e).__name__, e))
                    continue
                if got.session_key != info["key"]:
                    out.fail("C07.read-key", "differs", "read returned session key %s, written %s"
                             % (got.session_key.hex(), info["key"].hex()))
                lastread[name] = (got, sub, info["blocks"])
                out.ev("read", name, sub, [type(b).__name__ for b in got.auth_blocks.values()])
                continue
            if kind == "splice_insert":
                _, na, nb, b, where = op
                if na not in written or nb not in written:
                    continue
                A, B = written[na], written[nb]
                if b not in A["blocks"]:
                    continue
                others = [x for x in B["blocks"] if x in dec_all]
                if not others:
                    continue
                tagA, valA = A["hdr"][A["blocks"].index(b)]
                hdr2 = list(B["hdr"])
                foreign = (nops + b) % 3 == 0
                if foreign:
                    # a block of a kind this library version does not know (another tool added it)
                    # (also: an empty value, e.g. a vendor marker; tag 00 with a value is not the terminator)
                    tagA = [0x21, 0x7F, 0x04, 0x00][(b + nops // 3) % 4]
                    valA = valA[: (0 if nops % 4 == 0 and tagA else 1 + len(valA) % 40)]
                    if not valA:
                        out.probes["unknown-block-with-empty-value"] += 1
                hdr2.insert(0 if where == "front" else len(hdr2), (tagA, valA))
                header = b"BEC2\0" + b"".join(bytes([t, len(v)]) + v for t, v in hdr2) + b"\0\0"
                body = B["obj"].bf3file.to_binary(len(header), B["key"])
                fs.restart()
                fs.files["inserted.bec2"] = files.render(B["head"], header + body, b"\r\n" in fs.files[nb])
                out.fired["splice-insert"] += 1
                decs = []
                for x in [b] + others:
                    if dec_all[x] not in decs:
                        decs.append(dec_all[x])
                same = A["key"] == B["key"]
                sametag = any(pool[x]["t"] == pool[b]["t"] for x in B["blocks"])
                if foreign:
                    out.probes["block-with-unknown-tag"] += 1
                    decs = [dec_all[x] for x in others]      # only the file's own decryptors
                    try:
                        got = bf.Bec2File.read_file("inserted.bec2", decs, True)
                    except SimCrash:
                        raise
                    except Exception as e:
                        out.fail("C07.opaque-kept", "unknown-tag-unreadable", "a file carrying an auth block with the "
                                 "unknown tag %02x cannot be read any more: %s: %s" % (tagA, type(e).__name__, e))
                        continue
                    kept = [x for x in got.auth_blocks.values() if x.tag == tagA]
                    if not kept or bytes(kept[0].pack(got.session_key, [])) != valA:
                        out.fail("C07.opaque-kept", "unknown-tag-not-kept", "the block with the unknown tag %02x is not "
                                 "kept byte-for-byte" % tagA)
                    out.ev("foreign-block", tagA, len(valA))
                    continue
                try:
                    bf.Bec2File.read_file("inserted.bec2", decs, nops % 3 != 1)
                    res = "accepted"
                except SimCrash:
                    raise
                except Exception as e:
                    res = "rejected:" + type(e).__name__
                out.ev("splice_insert", b, where, same, sametag, res)
                if sametag:
                    out.probes["splice-insert-same-tag"] += 1
                if not same:
                    out.probes["splice-different-keys"] += 1
                    if res == "accepted":
                        out.fail("C07.splice-accepted", "insert-%s%s" % (pool[b]["t"], "-same-tag" if sametag else ""),
                                 "a header into which a %s block wrapping %s was inserted (%s; the file's other blocks "
                                 "wrap %s) was accepted with decryptors for all blocks supplied"
                                 % (pool[b]["t"], A["key"].hex(), where, B["key"].hex()))
                    else:
                        out.probes["splice-rejected"] += 1
                continue
            if kind == "splice":
                _, na, nb, b = op
                if na not in written or nb not in written:
                    continue
                A, B = written[na], written[nb]
                if b not in A["blocks"] or b not in B["blocks"] or len(B["blocks"]) < 2:
                    out.ev("splice-skipped")
                    continue
                ia, ib = A["blocks"].index(b), B["blocks"].index(b)
                tagA, valA = A["hdr"][ia]
                tagB, valB = B["hdr"][ib]
                if len(valA) != len(valB) or tagA != tagB:
                    out.ev("splice-skipped-len")
                    continue
                # rebuild B's binary with A's block value at the same place
                pos = 5
                for j in range(ib):
                    pos += 2 + len(B["hdr"][j][1])
                nbinary = B["binary"][:pos + 2] + valA + B["binary"][pos + 2 + len(valB):]
                fs.restart()
                fs.files["spliced.bec2"] = files.render(B["head"], nbinary, b"\r\n" in fs.files[nb])
                out.fired["splice"] += 1
                others = [x for x in B["blocks"] if x != b and x in dec_all]
                if not others:
                    out.ev("splice-no-second-decryptor")
                    continue
                decs = [dec_all[b]] + [dec_all[x] for x in others]
                same = A["key"] == B["key"]
                if pool[b]["t"] == "cust" and nops % 2 == 0:
                    # the customer-key unit (a pluggable peer) hands back an empty or short payload: the key this
                    # block "wraps" is then certainly not the file's key
                    n_ = [0, 5, 12, 0][(nops // 2) % 4]

                    class ShortCust(bf.CustKeyEncryptor):
                        def decrypt(self, ciphertext, n_=n_):
                            return bytes(range(n_))
                    decs = [ShortCust()] + [dec_all[x] for x in others]
                    same = False
                    out.probes["peer-returns-short-key-payload"] += 1
                try:
                    # "same key in every block" does not depend on MAC checking being on
                    got = bf.Bec2File.read_file("spliced.bec2", decs, nops % 3 != 0)
                    res = "accepted"
                except SimCrash:
                    raise
                except Exception as e:
                    res = "rejected:" + type(e).__name__
                out.ev("splice", b, same, res)
                if same:
                    out.probes["splice-equal-keys"] += 1
                    if res != "accepted":
                        out.fail("C07.splice-equal-rejected", pool[b]["t"], "a header whose blocks all wrap the same "
                                 "session key was rejected: %s" % res)
                else:
                    out.probes["splice-different-keys"] += 1
                    if res == "accepted":
                        out.fail("C07.splice-accepted", pool[b]["t"], "a file whose %s block wraps %s while the other "
                                 "blocks wrap %s was accepted (decryptors for both supplied)"
                                 % (pool[b]["t"], A["key"].hex(), B["key"].hex()))
                    else:
                        out.probes["splice-rejected"] += 1
        out.evals = max(1, nops)
    finally:
        env.restore_registry()
    return out


def _check_fresh(out, rng, key, used):
    """the session key must be RNG output that was not turned into a key before (a pooling
    implementation is fine, a cached or derived key is not)"""
    for i, d in enumerate(rng.draws):
        off = d[2].find(key)
        while off >= 0:
            if not any(u[0] == i and u[1] < off + len(key) and off < u[2] for u in used):
                used.append((i, off, off + len(key)))
                return
            off = d[2].find(key, off + 1)
    if any(d[2].find(key) >= 0 for d in rng.draws):
        out.fail("C07.fresh-key", "rng-bytes-reused", "session key %s re-uses RNG output already used for an "
                 "earlier key" % key.hex())
    else:
        out.fail("C07.fresh-key", "not-from-rng", "session key %s is not output of the random source" % key.hex())


def _writer_encryptors(pool, blocks, opened, env_):
    """ext_encryptors a host would supply when (re)writing: for blocks it can build"""
    bf = env_.bec2file
    outl = []
    for b in blocks:
        p = pool[b]
        if b not in opened:
            continue
        if p["t"] == "cust":
            ck = bytes.fromhex(p["ck"]) if p["ck"] else None
            outl.append((b, bf.SoftwareCustKeyEncryptor(bytes.fromhex(p["aes"]), ck, 0 if ck else None)))
        elif p["t"] == "ecc" and p["recip"] is not None:
            outl.append((b, bf.EccEncryptor(p["sel"], prov.make_priv(env_, p["recip"]).public_key)))
    return outl


def shrink(case):
    if case.get("conc"):
        pre = case["preempt"]
        for i in range(len(pre)):
            yield dict(case, preempt=pre[:i] + pre[i + 1:])
        return
    ops = case["ops"]
    for i in range(len(ops) - 1, -1, -1):
        yield dict(case, ops=ops[:i] + ops[i + 1:])
    for i, op in enumerate(ops):
        if op[0] == "new" and len(op[3]) > 1:
            for j in range(len(op[3])):
                yield dict(case, ops=ops[:i] + [[op[0], op[1], op[2], op[3][:j] + op[3][j + 1:], op[4]]] + ops[i + 1:])
    for oi, spec in enumerate(case["objs"]):
        for ns in G.spec_shrinks(spec):
            yield dict(case, objs=case["objs"][:oi] + [ns] + case["objs"][oi + 1:])
