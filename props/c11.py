"""C11 — configuration updates are history-independent.
E-hist: seeded operation histories on a real Bec2File/Bf3File pair against RefCfg, with
"persist + restart + reload" and "failed write" as ordinary operations (only durable state
survives a reload)."""
from sim import env, files, prov
from sim import gen as G
from sim.core import Outcome, exc_site, rbytes
from sim.simfs import SimFS, SimCrash

ID = "C11"
LEVEL = "exploration"
ENGINE = "E-hist"
TECHNIQUE = ("deterministic simulation: seeded operation histories (set configuration, derive comments / auth blocks, insert "
             "components with and without type tag, edit comments, write, failed write, restart+reload from the simulated "
             "medium) against a reference model, invariants after every step; history independence checked against a fresh "
             "object given only the most recent configuration")
DESIGN_REF = "DESIGN.md section 6, C11"
LEVEL_TEXT = ("seeded search over operation histories up to 12 steps over a pool of 5 configurations; the state after every "
              "step is compared with RefCfg and with a fresh object; sampling of histories, violations shrink to 2-3 steps")
LEVEL_NOTE = ("no demand on where the configuration sits after the caller inserted something behind it; no demand on stale "
              "update blocks when deriving into a file that already has blocks (the statement covers files that have none)")
RUNS = {"quick": 30000, "thorough": 1500000}
OPTIMIZED_PASS = {"quick": 1500, "thorough": 30000}   # extra runs under PYTHONOPTIMIZE=1 (assert statements removed)
RULE = ("per run a pool of 5 configurations (with/without naming values, security code, bus-address flag) and a history of "
        "3-12 operations; non-trivial = at least two configuration-related operations ran; distinct = digests of the "
        "operation/outcome sequence; evaluations = operations")
REAL = ["bec2format.bf3file (set_config, derive_comments_from_config, writer, reader)", "bec2format.bec2file "
        "(derive_auth_blocks_from_config, Bec2File)", "bec2format.configid", "plug-in + pyaes"]
STUBS = ["medium: SimFS (ENOSPC for failed writes, restart)", "RNG: SimRng", "RefCfg: model of components / comments / "
         "block kinds + own TLV block decoder"]
PROBES = ["configuration-component-of-foreign-make", "variant-package-sharing-components", "runs-with-assertions-disabled", "bf3-write-default-key", "edit-through-kept-list-reference", "two-packages-aliasing-check", "second-file-object", "second-set-config", "component-without-type-before-config", "set-config-after-reload", "derive-after-reload",
          "failed-write", "stale-derived-comment-candidate", "derive-blocks-on-empty", "update-block-expected",
          "insert-behind-config"]
ASSUMPTIONS = ["identifier existence rule taken from the C12 text: version present and (numeric scheme complete or name present)"]

DERIVED = ("Configuration", "DeviceSettings", "RequiresBusAddress")


def gen(st, tier):
    w = st["workload"]
    cfgs = [G.config_spec(w, naming=n, code=c, bus=b, nvals=w.choice([1, 2, 4]))
            for n, c, b in (("full", True, False), ("none", False, True), ("name-only", True, None),
                            (w.choice(["dev", "both", "dev-noname"]), True if w.random() < 0.7 else None, None),
                            (None, None, None))]
    for c_ in cfgs:
        # "delete this value" entries (content None): legal in a configuration, and for the security code it
        # means that the configuration has none
        if not any((k_, v_) == (0x0202, 0x82) for k_, v_, _ in c_) and w.random() < 0.35:
            c_.insert(w.randint(0, len(c_)), [0x0202, 0x82, None])
        if w.random() < 0.15:
            c_.insert(w.randint(0, len(c_)), [w.choice([0x1111, 0x0301, 0x7FFF]), 0x7F, None])
        for e_ in c_:
            # the bus-address flag in other spellings: zero, empty, two bytes, "delete this value"
            if e_[0] == 0x0620 and e_[1] == 0x20 and w.random() < 0.5:
                e_[2] = w.choice(["00", "", "0000", "02", None])
    ops = []
    n = w.choice([3, 4, 5, 6, 8, 10, 12])
    for _ in range(n):
        r = w.random()
        if r < 0.28:
            extra = [rbytes(w, w.choice([3, 10])).hex()] if w.random() < 0.15 else []
            ops.append(["set_config", w.randrange(5), extra])
        elif r < 0.40:
            ops.append(["derive_comments", w.randrange(5)])
        elif r < 0.50:
            ops.append(["derive_blocks", w.randrange(5), w.random() < 0.6])
        elif r < 0.68:
            c = G.component_spec(w, enc=False, max_len=40)
            c["desc"] = [d for d in c["desc"] if d[0] != 0xC3]
            if w.random() < 0.6:
                # type tags are byte strings: one byte as the library writes them, or longer ones as other tools do
                c["desc"].insert(w.randint(0, len(c["desc"])),
                                 [0xC3, w.choice(["00", "01", "02", "00", "01", "02", "0003", "000003", "0300", "1233", ""])])
            while G.desc_size(c["desc"]) > 210:
                del c["desc"][-1 if c["desc"][-1][0] != 0xC3 else 0]
            ops.append(["add_comp", w.choice(["front", "mid", "end", "front"]), c])
        elif r < 0.76:
            ops.append(["comment", w.choice(["FirmwareId", "Note", "X"]),
                        w.choice([None, "1053", "abc def", "v: 2"])])
        elif r < 0.765 and not any(o[0] in ("set_config", "add_cfg", "reload", "reload_bf3") for o in ops):
            # the package already holds a configuration component that this library did not make (factory default,
            # another tool): type CONFIGURATION, its own tag set.  Only before the first set_config of the history.
            ops.append(["add_cfg", w.choice(["front", "mid", "end"]),
                        {"desc": w.choice([[[0xC3, "03"]], [[0xC3, "03"], [0xC1, "03"]], [[0xC3, "03"], [0xC2, "00"]],
                                           [[0xC1, "03"], [0xC3, "03"], [0xC4, "0101"]]]),
                         "blob": {"len": w.choice([1, 5, 16, 30]), "fill": "rand", "tail0": 0, "s": w.getrandbits(32)},
                         "alen": None, "enc": False}])
        elif r < 0.775:
            # a per-device variant: a second package made from the same component objects gets another configuration
            ops.append(["variant", w.randrange(5)])
        elif r < 0.79:
            ops.append(["fresh_file"])
        elif r < 0.815:
            # the package alone (BF3 framing, default session key), written and loaded again
            ops.append(["write_bf3", "pkg.bf3"])
            if w.random() < 0.6:
                ops.append(["reload_bf3", "pkg.bf3"])
        elif r < 0.84:
            ops.append(["write", "cfg.bec2"])
        elif r < 0.88:
            ops.append(["failed_write", "cfg.bec2", w.randint(0, 5), w.randint(0, 30)])
        else:
            ops.append(["write", "cfg.bec2"])
            ops.append(["reload", "cfg.bec2"])
    return {"cfgs": cfgs, "ops": ops, "via_alias": w.random() < 0.4, "skey": G.session_key_spec(w, allow_default=False),
            "aes": rbytes(w, 16).hex(), "rng": w.getrandbits(32)}


# ------------------------------------------------------------- RefCfg ------
def decode_blocks(blob):
    """[block bytes...] of a configuration component payload (length-prefixed, closed by 00)"""
    out = []
    pos = 0
    while True:
        if pos >= len(blob):
            raise ValueError("no terminating 00")
        ln = blob[pos]
        pos += 1
        if ln == 0:
            break
        out.append(blob[pos:pos + ln])
        if len(out[-1]) != ln:
            raise ValueError("block runs past the end")
        pos += ln
    return out, blob[pos:]


def decode_ops(blocks):
    """operations encoded in TLV blocks: ('delkey',k) ('delval',k,v) ('set',k,v,content)"""
    ops = []
    for b in blocks:
        pos = 0
        while pos < len(b):
            op = b[pos]
            key = int.from_bytes(b[pos + 1:pos + 3], "big")
            pos += 3
            if op == 2:
                ops.append(("delkey", key))
            elif op == 1:
                while pos < len(b):
                    v = b[pos]
                    if v == 0xFF:
                        pos += 1
                        break
                    ln = b[pos + 1]
                    if ln == 0xFF:
                        ops.append(("delval", key, v))
                        pos += 2
                    else:
                        ops.append(("set", key, v, bytes(b[pos + 2:pos + 2 + ln])))
                        pos += 2 + ln
            else:
                raise ValueError("unknown TLV opcode %02x" % op)
    return ops


def expected_ops(cfg):
    out = []
    for (k, v), c in cfg.items():
        if v is None:
            out.append(("delkey", k))
        elif c is None:
            out.append(("delval", k, v))
        else:
            out.append(("set", k, v, c))
    return sorted(out, key=repr)


def id_version(cfg):
    """version of the configuration identifier, or None when no identifier exists (C12 text):
    project settings first, device settings as fallback"""
    def has_name(k):
        return bool(cfg.get((0x620, k)))
    if (0x620, 0x07) in cfg and (((0x620, 0x01) in cfg and (0x620, 0x05) in cfg) or has_name(0x06)):
        return int.from_bytes(cfg[(0x620, 0x07)], "big")
    if (0x620, 0x04) in cfg and ((0x620, 0x01) in cfg or has_name(0x03)):
        return int.from_bytes(cfg[(0x620, 0x04)], "big")
    return None


def snap_comp(c):
    return (list(c.description.items()), bytes(c.blob), c.actual_len, bool(c.encrypt_by_session_key))


def is_cfg_comp(c):
    return c.description.get(0xC3) == b"\x03"


def run(case):
    out = Outcome()
    fs = SimFS()
    env.restore_registry()
    env.use_fs(fs)
    bfm = env.bec2file
    env.install_rng(prov.SimRng(case["rng"]))
    cfgs = [G.config_dict(c) for c in case["cfgs"]]
    pristine = [dict(c) for c in cfgs]
    skey = bytes.fromhex(case["skey"])
    cust = bfm.SoftwareCustKeyEncryptor(bytes.fromhex(case["aes"]))
    try:
        bec = bfm.Bec2File(env.bf3file.Bf3File(), [], skey)
        alias = bec.bf3file.components     # a caller may keep the public list and edit through it
        prev_cfg_comp = None               # configuration component object of an earlier package
        m_comments = {}
        last = None           # (name of the last durable write, snapshot, block tags)
        last_bf3 = None
        codes = {}            # tag 2 -> code of the configuration it was derived from
        nset = 0
        ncfgops = 0
        reloaded = False
        nops = 0
        for op in case["ops"]:
            nops += 1
            bf3 = bec.bf3file
            k = op[0]
            narrow = None
            if k == "set_config":
                _, ci, extra = op
                cfg = cfgs[ci]
                exb = [bytes.fromhex(x) for x in extra]
                if any(not c.description.get(0xC3) for c in bf3.components) and any(
                        is_cfg_comp(c) for c in bf3.components):
                    out.probes["component-without-type-before-config"] += 1
                before = [snap_comp(c) for c in bf3.components if not is_cfg_comp(c)]
                try:
                    bf3.set_config(cfg, exb)
                except Exception as e:
                    out.fail("C11.set_config-raises", exc_site(e), "set_config raised %s: %s" % (type(e).__name__, e))
                    break
                nset += 1
                ncfgops += 1
                if nset >= 2:
                    out.probes["second-set-config"] += 1
                if reloaded:
                    out.probes["set-config-after-reload"] += 1
                cc = [c for c in bf3.components if is_cfg_comp(c)]
                if len(cc) != 1:
                    out.fail("C11.one-config", "count-%d" % len(cc),
                             "after set_config the file holds %d configuration components" % len(cc))
                    break
                if bf3.components[-1] is not cc[0]:
                    out.fail("C11.config-last", "not-last", "after set_config the configuration component is not last")
                after = [snap_comp(c) for c in bf3.components if not is_cfg_comp(c)]
                if after != before:
                    out.fail("C11.others-untouched", "changed", "set_config changed other components or their order")
                fresh = env.bf3file.Bf3File()
                fresh.set_config(cfg, exb)
                if snap_comp(cc[0]) != snap_comp(fresh.components[0]):
                    out.fail("C11.config-history", "differs-from-fresh",
                             "configuration component differs from the one a fresh file gets for the same configuration")
                try:
                    blocks, rest = decode_blocks(cc[0].blob[:cc[0].actual_len])
                    nex = len(exb)
                    own = blocks[:len(blocks) - nex] if nex else blocks
                    if nex and blocks[len(blocks) - nex:] != exb:
                        out.fail("C11.config-content", "extra-blocks", "caller-supplied blocks do not follow unchanged")
                    got_ops = sorted(decode_ops(own), key=repr)
                    if got_ops != expected_ops(cfg):
                        out.fail("C11.config-content", "ops", "configuration component does not decode to exactly the "
                                 "most recent configuration (%d ops vs %d)" % (len(got_ops), len(expected_ops(cfg))))
                except (ValueError, IndexError) as e:
                    out.fail("C11.config-content", "undecodable", "configuration payload is not decodable: %s" % e)
                if prev_cfg_comp is not None and cc:
                    # packages are independent objects: editing the earlier package's configuration component
                    # must not show in this one
                    out.probes["two-packages-aliasing-check"] += 1
                    before_d = list(cc[0].description.items())
                    prev_cfg_comp.description[0x7E] = b"poke"
                    if list(cc[0].description.items()) != before_d:
                        out.fail("C11.others-untouched", "description-shared-between-packages",
                                 "adding a tag to the configuration component of an earlier package changed the "
                                 "configuration component of this package (shared description object)")
                    prev_cfg_comp.description.pop(0x7E, None)
                out.ev("set_config", ci, len(bf3.components))
            elif k == "variant":
                _, ci = op
                before_all = [snap_comp(c) for c in bf3.components]
                var = env.bf3file.Bf3File(dict(bf3.comments), bf3.components)   # copies the list, shares the objects
                try:
                    var.set_config(cfgs[ci])
                except Exception as e:
                    out.fail("C11.set_config-raises", exc_site(e), "set_config on a variant package raised %s: %s"
                             % (type(e).__name__, e))
                    break
                out.probes["variant-package-sharing-components"] += 1
                if [snap_comp(c) for c in bf3.components] != before_all:
                    out.fail("C11.others-untouched", "variant-changed-base", "set_config on a second package made from "
                             "the same component objects changed the components of the first package")
                fresh = env.bf3file.Bf3File()
                fresh.set_config(cfgs[ci])
                vc = [c for c in var.components if is_cfg_comp(c)]
                if len(vc) != 1 or snap_comp(vc[0]) != snap_comp(fresh.components[0]):
                    out.fail("C11.config-history", "variant-differs-from-fresh", "the variant's configuration component "
                             "differs from the one a fresh file gets for the same configuration")
                out.ev("variant", ci, len(var.components))
            elif k == "derive_comments":
                _, ci = op
                cfg = cfgs[ci]
                fresh = env.bf3file.Bf3File()
                try:
                    fresh.derive_comments_from_config(cfg)
                    if any(key in bf3.comments for key in DERIVED):
                        out.probes["stale-derived-comment-candidate"] += 1
                    bf3.derive_comments_from_config(cfg)
                except Exception as e:
                    out.fail("C11.derive-raises", exc_site(e), "derive_comments raised %s: %s" % (type(e).__name__, e))
                    break
                ncfgops += 1
                if reloaded:
                    out.probes["derive-after-reload"] += 1
                for key in DERIVED:
                    m_comments.pop(key, None)
                m_comments.update(fresh.comments)
                if dict(bf3.comments) != m_comments:
                    bad = [key for key in set(bf3.comments) | set(m_comments)
                           if bf3.comments.get(key) != m_comments.get(key)]
                    kind_ = "derived" if any(b in DERIVED for b in bad) else "other"
                    out.fail("C11.comments", kind_ + "-comment",
                             "after derive_comments(config %d) comments are %r, expected %r" % (ci, dict(bf3.comments), m_comments))
                out.ev("derive_comments", ci, sorted(k2 for k2 in bf3.comments if k2 in DERIVED))
            elif k == "derive_blocks":
                _, ci, custmode = op
                cfg = cfgs[ci]
                had = list(bec.auth_blocks)
                try:
                    bec.derive_auth_blocks_from_config(cfg, cust_key_support=custmode)
                except Exception as e:
                    out.fail("C11.derive-raises", exc_site(e), "derive_auth_blocks raised %s: %s" % (type(e).__name__, e))
                    break
                ncfgops += 1
                tags = [b.tag for b in bec.auth_blocks.values()]
                if len(tags) != len(set(tags)):
                    out.fail("C11.blocks", "duplicate-kind", "more than one block of a kind: %r" % tags)
                code = cfg.get((0x0202, 0x82))
                ver = id_version(cfg)
                if not had:
                    out.probes["derive-blocks-on-empty"] += 1
                    want = [0x01 if custmode else 0x03]
                    if code is not None and ver is not None:
                        want.append(0x02)
                        out.probes["update-block-expected"] += 1
                    if sorted(tags) != sorted(want):
                        out.fail("C11.blocks", "wrong-set", "deriving into a file without blocks gave tags %r, expected %r"
                                 % (tags, want))
                    elif 0x02 in want:
                        ub = bec.auth_blocks[0x02]
                        if ub.config_security_code != code or ub.version != ver:
                            out.fail("C11.blocks", "update-fields", "update block carries (%r, %r), expected (%r, %r)"
                                     % (ub.config_security_code, ub.version, code, ver))
                if 0x02 in bec.auth_blocks:
                    codes[0x02] = bec.auth_blocks[0x02].config_security_code
                out.ev("derive_blocks", ci, custmode, tags)
            elif k == "fresh_file":
                # the host starts another package in the same process: nothing may carry over
                old_cfg = [c for c in bec.bf3file.components if is_cfg_comp(c)]
                prev_cfg_comp = old_cfg[-1] if old_cfg else prev_cfg_comp
                bec = bfm.Bec2File(env.bf3file.Bf3File(), [], skey)
                alias = bec.bf3file.components
                m_comments = {}
                last = None
                codes = {}
                nset = 0
                out.probes["second-file-object"] += 1
                if bec.auth_blocks or bec.bf3file.components or bec.bf3file.comments:
                    out.fail("C11.fresh-file", "not-empty", "a newly created file already holds blocks %r / %d components "
                             "/ comments %r" % (list(bec.auth_blocks), len(bec.bf3file.components), bec.bf3file.comments))
                out.ev("fresh_file")
            elif k == "add_comp":
                _, where, cspec = op
                comp = env.bf3file.Bf3Component({int(t): bytes.fromhex(v) for t, v in cspec["desc"]},
                                                G.make_blob(cspec["blob"]), cspec["alen"])
                n = len(bf3.components)
                pos = {"front": 0, "mid": n // 2, "end": n}[where]
                has_cfg_before = any(is_cfg_comp(c) for c in bf3.components[:pos])
                if has_cfg_before:
                    out.probes["insert-behind-config"] += 1
                if case.get("via_alias"):
                    alias.insert(pos, comp)     # through the list object fetched when the package was created
                    out.probes["edit-through-kept-list-reference"] += 1
                    if comp not in bf3.components:
                        out.fail("C11.others-untouched", "component-inserted-through-kept-list-lost",
                                 "a component inserted through the list object obtained earlier from bf3.components is "
                                 "not in the file (the list was replaced behind the caller's back)")
                        break
                else:
                    bf3.components.insert(pos, comp)
                out.ev("add_comp", where, 0xC3 in comp.description)
            elif k == "add_cfg":
                _, where, cspec = op
                if any(is_cfg_comp(c) for c in bf3.components):
                    continue
                comp = env.bf3file.Bf3Component({int(t): bytes.fromhex(v) for t, v in cspec["desc"]},
                                                G.make_blob(cspec["blob"]), cspec["alen"])
                n = len(bf3.components)
                bf3.components.insert({"front": 0, "mid": n // 2, "end": n}[where], comp)
                out.probes["configuration-component-of-foreign-make"] += 1
                out.ev("add_cfg", where, len(comp.description))
            elif k == "comment":
                _, key, val = op
                if val is None:
                    bf3.comments.pop(key, None)
                    m_comments.pop(key, None)
                else:
                    bf3.comments[key] = val
                    m_comments[key] = val
                out.ev("comment", key)
            elif k == "write_bf3":
                try:
                    bf3.write_file(op[1])
                except Exception as e:
                    out.fail("C11.write-raises", exc_site(e), "BF3 write raised %s: %s" % (type(e).__name__, e))
                    break
                last_bf3 = (op[1], G.snapshot_bf3(bf3))
                out.probes["bf3-write-default-key"] += 1
                out.ev("write_bf3")
            elif k == "reload_bf3":
                if not last_bf3 or last_bf3[0] != op[1]:
                    continue
                fs.restart()
                try:
                    gotb = env.bf3file.Bf3File.read_file(op[1])
                except Exception as e:
                    out.fail("C11.reload-raises", "%s@%s" % (type(e).__name__, exc_site(e)),
                             "restart + reload of the BF3 package raised %s: %s" % (type(e).__name__, e))
                    break
                diff = G.compare_bf3(last_bf3[1], gotb)
                if diff:
                    out.fail("C11.reload-differs", "bf3-" + diff[0], "reloaded BF3 package differs from the object that "
                             "was written (stale state in the written file?): %s" % diff[1])
                    break
                bec = bfm.Bec2File(gotb, list(bec.auth_blocks.values()), skey)
                alias = bec.bf3file.components
                reloaded = True
                out.ev("reload_bf3", len(gotb.components))
            elif k in ("write", "failed_write"):
                name = op[1]
                if 0x01 not in bec.auth_blocks and 0x02 not in bec.auth_blocks:
                    # make the file reloadable: a host would add a block it can open
                    bec.add_auth_block(bfm.InitCustKeyAuthBlock())
                before = (G.snapshot_bf3(bf3), [b.tag for b in bec.auth_blocks.values()], bec.session_key)
                fs.plan[name] = {op[2]: ("enospc", op[3])} if k == "failed_write" else {}
                nf = len(fs.fired)
                try:
                    bec.write_file(name, [cust])
                    ok = True
                except SimCrash:
                    raise
                except OSError:
                    ok = False
                except Exception as e:
                    out.fail("C11.write-raises", exc_site(e), "write raised %s: %s" % (type(e).__name__, e))
                    break
                fs.plan[name] = {}
                after = (G.snapshot_bf3(bf3), [b.tag for b in bec.auth_blocks.values()], bec.session_key)
                if after != before:
                    out.fail("C11.write-mutates", "failed" if not ok else "ok",
                             "a %s write changed the in-memory file object" % ("failed" if not ok else "successful"))
                if len(fs.fired) > nf:
                    out.fired["enospc"] += 1
                    out.probes["failed-write"] += 1
                out.ev(k, ok)
                durable_ok = ok and len(fs.fired) == nf
                last = (name if durable_ok else None, G.snapshot_bf3(bf3), list(bec.auth_blocks))
            elif k == "reload":
                name = op[1]
                if not last or last[0] != name:
                    out.ev("reload-skipped")
                    continue
                fs.restart()
                decs = [cust]
                if 0x02 in codes:
                    decs.append(bfm.ConfigSecurityCodeEncryptor(codes[0x02]))
                try:
                    got = bfm.Bec2File.read_file(name, decs, True)
                except Exception as e:
                    out.fail("C11.reload-raises", "%s@%s" % (type(e).__name__, exc_site(e)),
                             "restart + reload raised %s: %s" % (type(e).__name__, e))
                    break
                diff = G.compare_bf3(last[1], got.bf3file)
                if diff:
                    out.fail("C11.reload-differs", diff[0], "reloaded file differs from what was written: %s" % diff[1])
                    break
                bec = got
                alias = bec.bf3file.components
                reloaded = True
                out.ev("reload", len(got.bf3file.components), list(got.auth_blocks))
            # --- invariants after every step ---
            for ci_, (c_, p_) in enumerate(zip(cfgs, pristine)):
                if c_ != p_:
                    out.fail("C11.config-mutated", "callers-dict-changed",
                             "operation %s changed the caller's configuration dictionary %d: %r" % (
                                 k, ci_, sorted(set(c_.items()) ^ set(p_.items()))[:3]))
                    cfgs[ci_] = dict(p_)
            bf3 = bec.bf3file
            ncc = sum(1 for c in bf3.components if is_cfg_comp(c))
            if ncc > 1:
                out.fail("C11.one-config", "count-%d" % ncc, "file holds %d configuration components after %s" % (ncc, k))
                break
        if ncfgops >= 2:
            out.nontrivial = True
        out.evals = max(1, nops)
    finally:
        env.restore_registry()
    return out


def shrink(case):
    ops = case["ops"]
    for i in range(len(ops)):
        yield dict(case, ops=ops[:i] + ops[i + 1:])
    for i, op in enumerate(ops):
        if op[0] == "set_config" and op[2]:
            yield dict(case, ops=ops[:i] + [[op[0], op[1], []]] + ops[i + 1:])
        if op[0] == "add_comp":
            c = op[2]
            if len(c["desc"]) > 1:
                for j in range(len(c["desc"])):
                    nc = dict(c, desc=c["desc"][:j] + c["desc"][j + 1:])
                    yield dict(case, ops=ops[:i] + [[op[0], op[1], nc]] + ops[i + 1:])
    for ci, cfg in enumerate(case["cfgs"]):
        for j in range(len(cfg)):
            if len(cfg) > 1:
                yield dict(case, cfgs=case["cfgs"][:ci] + [cfg[:j] + cfg[j + 1:]] + case["cfgs"][ci + 1:])
