"""C06 — encrypted components are stored only as ciphertext and decrypt to the original.
E-prov/E-store simulation with the *cipher plug-in as a faulty dependency*: registered,
missing (abstract base class) or raising at an arbitrary call k of the write; the stored
bytes are located independently (RefDir) and compared with RefAES-CBC."""
from sim import env, files, prov, refaes, refdir
from sim import gen as G
from sim.core import Outcome, exc_site, rbytes
from sim.simfs import SimFS, SimCrash

ID = "C06"
LEVEL = "exploration"
ENGINE = "E-prov"
TECHNIQUE = ("deterministic simulation with dependency-fault injection: the AES plug-in is registered / missing / raises at "
             "call k (k placed inside the write by a dry run); stored payload located by an independent directory walker "
             "and compared with an independent AES-CBC; restart, read back, rewrite; secrecy scan with high-entropy needles; second-key rewrites; concurrent writers under one key under the deterministic thread scheduler")
DESIGN_REF = "DESIGN.md section 6, C06"
LEVEL_TEXT = ("seeded search over (content length mod 16, trailing zeros, key class, framing, cipher fault point); per file "
              "every cipher call index of the write is a candidate fault point and a seeded one is injected; sampling")
LEVEL_NOTE = ("secrecy uses only high-entropy secrets (>= 8 random bytes) so a chance match has probability < 2^-50; "
              "RefAES is validated against FIPS-197/SP 800-38A vectors and openssl in setup")
RUNS = {"quick": 6000, "thorough": 120000}
OPTIMIZED_PASS = {"quick": 500, "thorough": 4000}   # extra runs under PYTHONOPTIMIZE=1 (assert statements removed)
RULE = ("per run one BF3/BEC2 file with 1-3 session-key-encrypted components (hand-made and set_config), content lengths "
        "over all residues mod 16 with 0-20 trailing zero bytes or all-zero, and one cipher configuration: real, missing, or "
        "raising at call k; non-trivial = cipher fault fired or a stored ciphertext was compared with RefAES; distinct = digests")
REAL = ["bec2format.bf3file / bec2file / crypto registry", "register_crypto_plugin.AES128Proxy + pyaes (wrapped by FaultyAES "
        "when the fault arm is active)"]
STUBS = ["medium: SimFS", "RNG: SimRng", "cipher fault wrapper FaultyAES / abstract base class for 'missing'",
         "RefAES, RefDir (independent models)"]
PROBES = ["derived-file-scanned", "cipher-takes-whole-blocks-only", "blocks-derived-from-configuration", "runs-with-assertions-disabled", "retry-after-cipher-failure", "marked-component-without-enc-tag", "plain-configuration-replaced-by-set_config", "sibling-package-made-plain", "concurrent-writers-same-key", "rewritten-under-second-key", "content-longer-than-4096", "content-multiple-of-16", "content-trailing-zero", "content-all-zero", "cipher-missing", "cipher-raised-at-k",
          "write-failed-no-file", "write-failed-file-exists", "rewrite-same-ciphertext", "bec2-framing", "config-component",
          "secrecy-needles-checked"]
ASSUMPTIONS = ["encrypted content is defined up to its declared length; the reader returns the zero-padded plaintext"]


class CipherFault(RuntimeError):
    pass


def make_faulty(real_cls, state):
    class FaultyAES(real_cls):
        def _tick(self):
            state["calls"] += 1
            if state["fail_at"] is not None and state["calls"] == state["fail_at"]:
                state["fired"] += 1
                raise CipherFault("simulated cipher failure at call %d" % state["calls"])

        def encrypt(self, data):
            self._tick()
            return real_cls.encrypt(self, data)

        def decrypt(self, data):
            self._tick()
            return real_cls.decrypt(self, data)

    return FaultyAES


def make_strict(real_cls):
    """a crypto unit behind the plug-in interface that takes whole blocks only (it does not pad for the caller);
    its MAC is, as specified for the adapter, the last block of the zero-padded CBC"""
    class StrictAES(real_cls):
        def encrypt(self, data):
            if len(data) % 16:
                raise ValueError("crypto unit: %d bytes is not a whole number of blocks" % len(data))
            return real_cls.encrypt(self, data)

        def mac(self, data):
            return real_cls.encrypt(self, data)[-16:]

    return StrictAES


def gen(st, tier):
    w = st["workload"]
    f = st["faults"]
    if w.random() < 0.03:
        # concurrent writers under one session key, each with its own package object
        from sim import conc
        pre, ch = conc.sched_spec(st["schedule"])
        objs = []
        for _ in range(2):
            c = G.component_spec(w, enc=True, max_len=120)
            c["blob"] = {"len": w.choice([17, 33, 48, 64, 100]), "fill": "rand", "tail0": w.choice([0, 0, 3]),
                         "s": w.getrandbits(32)}
            c["alen"] = None
            objs.append({"comments": [], "components": [c]})
        return {"conc": True, "objs": objs, "key": G.session_key_spec(w), "preempt": pre, "choices": ch}
    kind = w.choice(["bf3", "bf3", "bec2"])
    spec = files.file_spec(w, kind=kind, p_enc=0.0, max_len=120)
    comps = spec["obj"]["components"][:2]
    nenc = w.choice([1, 1, 2, 3])
    for _ in range(nenc):
        c = G.component_spec(w, enc=True, max_len=200)
        n = w.choice([w.randint(1, 64), 16, 32, 48, 15, 17, 1])
        if w.random() < 0.05:
            n = w.choice([4095, 4096, 4097, 4112, 8191, 8193, w.randint(4000, 9000)])
        r = w.random()
        if r < 0.15:
            c["blob"] = {"len": n, "fill": "zero", "tail0": 0, "s": 0}
        else:
            c["blob"] = {"len": n, "fill": "rand", "tail0": min(n - 1, w.choice([0, 0, 1, 2, 3, 15, 16, 20])),
                         "s": w.getrandbits(32)}
        if c["alen"] is not None:
            c["alen"] = w.randint(1, n)
        if w.random() < 0.08:
            # marked for session-key encryption but without the ENC tag: the reader cannot know it has to
            # decrypt (no demand on read-back), the secrecy clause still applies
            c["desc"] = [d for d in c["desc"] if d[0] != 0xC2]
            c["tagless"] = True
        comps.insert(w.randint(0, len(comps)), c)
    spec["obj"]["components"] = comps
    if w.random() < 0.6:
        spec["obj"]["config"] = G.config_spec(w)
        if w.random() < 0.25:
            # the package already carries a plain (factory default) configuration component that set_config replaces
            comps.insert(w.randint(0, len(comps)), {"desc": [[0xC3, "03"], [0xC1, "03"]],
                                                    "blob": {"len": w.choice([5, 16, 30]), "fill": "rand", "tail0": 0,
                                                             "s": w.getrandbits(32)}, "alen": None, "enc": False})
            spec["plaincfg"] = True
    spec["rekey"] = G.session_key_spec(w, allow_default=(kind == "bf3")) if w.random() < 0.5 else None
    spec["cipher"] = f.choice(["real", "real", "real", "strict", "missing", "raise", "raise", "raise"])
    spec["fail_frac"] = f.random()
    return spec


def _needles(case, w):
    """high-entropy secrets that must not appear in clear"""
    ns = []
    if any(b for b in w.key) and len(set(w.key)) > 6:
        ns.append(("session key", w.key))
    for b in case.get("blocks", []):
        if b["t"] == "upd":
            ns.append(("configuration security code", bytes.fromhex(b["code"])))
        if b["t"] == "cust" and b["ck"]:
            ns.append(("customer key", bytes.fromhex(b["ck"])))
    for k, v, c in case["obj"].get("config") or []:
        if c and len(c) >= 16 and k != 0x0620:
            ns.append(("configuration value %04X/%02X" % (k, v), bytes.fromhex(c)))
    return ns


def _scan(needles, durable, binary):
    for what, sec in needles:
        for i in range(0, len(sec) - 7):
            win = sec[i:i + 8]
            if win in binary or win in durable or win.hex().upper().encode() in durable:
                return what
            # other clear-text renderings inside the text: lower-case hex, Python's bytes repr, Base64
            if win.hex().encode() in durable or repr(win)[2:-1].encode() in durable:
                return what + " (rendered as text)"
    return None


def _run_conc(case):
    from sim import conc
    out = Outcome()
    key = bytes.fromhex(case["key"])

    def make_bodies(s):
        fs = SimFS()
        env.use_fs(fs)

        def body(i):
            def fn():
                obj = G.build_bf3(case["objs"][i], env)
                model = G.snapshot_bf3(obj)
                name = "t%d.bf3" % i
                h = fs.open(name, "w")
                try:
                    obj.write_file(h, key)
                finally:
                    h.close()
                head, binary = files.binary_of(fs.files[name])
                got = env.bf3file.Bf3File.read_file(name, True, key)
                return (binary, G.compare_bf3(model, got), model)
            return fn
        return [body(i) for i in range(len(case["objs"]))]
    try:
        dry, cc, pre = conc.run_conc(make_bodies, case["preempt"], case["choices"], first=0)
    finally:
        env.restore_registry()
    npre = sum(1 for d in cc.decisions if d[3] == "preempt")
    out.fired["preempt"] += npre
    out.nontrivial = npre > 0
    out.probes["concurrent-writers-same-key"] += 1
    out.ev("conc", tuple(cc.decisions), cc.aborted, [type(t.exc).__name__ for t in cc.threads])
    narrow = dict(case, preempt=[["abs", p] if isinstance(p, int) else list(p) for p in pre])
    if any(t.exc is not None for t in dry.threads):
        out.ev("sequential-raises")
        return out
    for i, t in enumerate(cc.threads):
        if cc.aborted or t.exc is not None:
            out.fail("C06.concurrent", "raises", "thread %d: %s %r (schedule %s)" % (i, cc.aborted, t.exc, cc.decisions), narrow)
            continue
        binary, diff, model = t.result
        regions, info = refdir.walk(binary)
        for k, e in enumerate(info["entries"]):
            m = model["components"][k]
            if m["enc"]:
                stored = binary[e["adr"]:e["adr"] + e["total"]]
                if stored != refaes.cbc_enc(key, bytes(16), refaes.zpad(m["blob"])):
                    out.fail("C06.stored-not-ciphertext", "concurrent",
                             "thread %d: with another thread encrypting under the same key, the stored component is "
                             "not AES-CBC(zero IV) of its content (schedule %s)" % (i, cc.decisions), narrow)
        if diff:
            out.fail("C06.readback", "concurrent-" + diff[0], "thread %d: %s (schedule %s)" % (i, diff[1], cc.decisions), narrow)
    return out


def run(case):
    if case.get("conc"):
        return _run_conc(case)
    out = Outcome()
    fs = SimFS()
    env.restore_registry()
    env.use_fs(fs)
    kind = case["kind"]
    name = "dev.bec2" if kind == "bec2" else "fw.bf3"
    state = {"calls": 0, "fail_at": None, "fired": 0}
    try:
        mode = case["cipher"]
        if kind == "bec2":
            out.probes["bec2-framing"] += 1
        if case["obj"].get("config") is not None:
            out.probes["config-component"] += 1
        if mode == "raise":
            # dry run on a scratch medium to count the cipher calls of this write
            env.crypto.register_AES128(make_faulty(env.REAL_AES, state))
            fs0 = SimFS()
            env.use_fs(fs0)
            try:
                files.write_file(case, fs0, env, name)
            except Exception as e:
                out.ev("dry-write-failed", type(e).__name__)
                return out
            finally:
                env.use_fs(fs)
            ncalls = state["calls"]
            state.update(calls=0, fail_at=1 + int(case["fail_frac"] * ncalls) if ncalls else 1, fired=0)
            env.crypto.register_AES128(make_faulty(env.REAL_AES, state))
        elif mode == "missing":
            env.crypto.register_AES128(env.crypto.AES128)
        elif mode == "strict":
            env.crypto.register_AES128(make_strict(env.REAL_AES))
            out.probes["cipher-takes-whole-blocks-only"] += 1
        if case["obj"].get("config") is not None and case.get("rng", 0) % 3 == 0 and mode == "real":
            # a sibling package in the same process gets the same configuration and is then turned into a
            # plain one by editing its own configuration component in place: no business of this package
            sib = G.build_bf3(case["obj"], env)
            sc = sib.components[-1]
            sc.encrypt_by_session_key = False
            sc.description[0xC2] = b"\x00"
            out.probes["sibling-package-made-plain"] += 1
        before = dict(fs.files)
        pkg = G.build_bf3(case["obj"], env)
        try:
            # encryptors of auth blocks capture the cipher at construction: build inside
            w = files.write_file(case, fs, env, name, prebuilt=pkg)
            wrote = True
        except SimCrash:
            raise
        except Exception as e:
            wrote = False
            werr = e
        if mode in ("missing", "raise"):
            out.nontrivial = True
            if mode == "missing":
                out.probes["cipher-missing"] += 1
                out.fired["cipher-missing"] += 1
            else:
                out.fired["cipher-raise@k"] += state["fired"]
                if state["fired"]:
                    out.probes["cipher-raised-at-k"] += 1
            fired = mode == "missing" or state["fired"] > 0
            if wrote and fired:
                out.fail("C06.write-succeeds-without-cipher", mode,
                         "cipher %s (fail at call %s) but write_file returned normally" % (mode, state["fail_at"]))
            if not wrote:
                out.ev("write-failed", mode, type(werr).__name__, state["fail_at"], state["calls"],
                       len(case["obj"]["components"]), kind)
                if name in fs.files and name not in before:
                    out.probes["write-failed-file-exists"] += 1
                    # a partial file may exist; it must not contain plaintext
                    env.restore_registry()
                    plain = [G.make_blob(c["blob"]) for c in case["obj"]["components"] if c["enc"]]
                    dur = fs.files[name]
                    for p in plain:
                        if len(p) >= 16 and len(set(p)) > 6 and (p[:16].hex().upper().encode() in dur or p[:16] in dur):
                            out.fail("C06.plaintext-after-failed-write", mode,
                                     "after a failed write the file on the medium contains plaintext of an "
                                     "encrypted component")
                else:
                    out.probes["write-failed-no-file"] += 1
                # the cipher works again (plug-in registered / transient error over): the caller writes the SAME
                # package object once more - what gets stored must be ciphertext as if nothing had happened
                env.restore_registry()
                env.use_fs(fs)
                try:
                    w = files.write_file(case, fs, env, name, prebuilt=pkg)
                except Exception as e:
                    out.fail("C06.retry-raises", exc_site(e), "retry of the same object after the cipher failure raised "
                             "%s: %s" % (type(e).__name__, e))
                    return out
                out.probes["retry-after-cipher-failure"] += 1
                mode = "real"
            if not fired:
                out.ev("fault-not-reached")
        elif not wrote:
            out.fail("C06.write-raises", exc_site(werr), "write with the real cipher raised %s: %s"
                     % (type(werr).__name__, werr))
            return out
        # ---- the file exists: stored bytes must be RefAES ciphertext ----
        env.restore_registry()
        env.use_fs(fs)
        head, binary = files.binary_of(w.durable)
        regions, info = refdir.walk(binary)
        import hashlib
        out.ev("file", kind, len(binary), hashlib.sha256(w.durable).hexdigest()[:12])
        enc_idx = [i for i, c in enumerate(w.model["components"]) if c["enc"]]
        tagless = {i for i, c in enumerate(w.model["components"]) if c["enc"] and 0xC2 not in dict(c["desc"])}
        if case.get("plaincfg"):
            out.probes["plain-configuration-replaced-by-set_config"] += 1
        if case["obj"].get("config") is not None:
            # every configuration component is marked for session-key encryption
            lastc = w.model["components"][-1]
            if not lastc["enc"] or dict(lastc["desc"]).get(0xC2) != b"\x02":
                out.fail("C06.config-not-marked-encrypted", "flag-or-tag",
                         "the configuration component made by set_config has encryption flag %r and ENC tag %r"
                         % (lastc["enc"], dict(lastc["desc"]).get(0xC2)))
        if len(info["entries"]) != len(w.model["components"]):
            out.fail("C06.layout", "entry-count", "directory has %d entries for %d components"
                     % (len(info["entries"]), len(w.model["components"])))
            return out
        for i in enc_idx:
            m = w.model["components"][i]
            e = info["entries"][i]
            content = m["blob"]
            expect = refaes.cbc_enc(w.key, bytes(16), refaes.zpad(content))
            stored = binary[e["adr"]:e["adr"] + e["total"]]
            out.nontrivial = True
            if len(content) % 16 == 0:
                out.probes["content-multiple-of-16"] += 1
            if len(content) > 4096:
                out.probes["content-longer-than-4096"] += 1
            if content.endswith(b"\0"):
                out.probes["content-trailing-zero"] += 1
            if not any(content):
                out.probes["content-all-zero"] += 1
            if stored != expect:
                what = "plaintext" if stored[:len(content)] == content else "other bytes"
                out.fail("C06.stored-not-ciphertext", what,
                         "component %d: stored payload (%d bytes) is not AES-128-CBC(zero IV) of the zero-padded "
                         "content (%d bytes) under the session key; it is %s" % (i, len(stored), len(content), what))
            if e["total"] != len(expect) or e["declared"] != m["alen"]:
                out.fail("C06.lengths", "stored/declared",
                         "component %d: stored length %d (expected %d), declared %d (expected %d)"
                         % (i, e["total"], len(expect), e["declared"], m["alen"]))
            tags = dict(refdir.tags_of(binary, e))
            if i in tagless:
                out.probes["marked-component-without-enc-tag"] += 1
            elif tags.get(0xC2) != b"\x02":
                out.fail("C06.enc-tag", "missing", "component %d is encrypted but its ENC tag is %r" % (i, tags.get(0xC2)))
        # ---- secrecy ----
        needles = _needles(case, w)
        if needles:
            out.probes["secrecy-needles-checked"] += 1
            leak = _scan(needles, w.durable, binary)
            if leak:
                out.fail("C06.secret-in-clear", leak.split(" ")[0], "%s appears in clear in the written file" % leak)
        # ---- the same package prepared the way the appnotes do it: blocks derived from the configuration ----
        cfgspec = case["obj"].get("config")
        if kind == "bec2" and cfgspec and mode == "real":
            cfg = G.config_dict(cfgspec)
            code = cfg.get((0x0202, 0x82))
            if code and len(code) >= 8:
                out.probes["blocks-derived-from-configuration"] += 1
                try:
                    env.install_rng(w.rng)
                    bec = env.bec2file.Bec2File(G.build_bf3(case["obj"], env))
                    bec.derive_auth_blocks_from_config(cfg, cust_key_support=bool(len(code) % 2 or code[0] & 1))
                    bec.write_file("derived.bec2", [x for x in getattr(w, "wenc", [])
                                                    if isinstance(x, env.bec2file.CustKeyEncryptor)])
                except SimCrash:
                    raise
                except Exception as e:
                    out.ev("derived-write-raised", type(e).__name__)
                else:
                    d2 = fs.files["derived.bec2"]
                    out.probes["derived-file-scanned"] += 1
                    leak = _scan([("configuration security code", code), ("session key", bytes(bec.session_key))],
                                 d2, files.binary_of(d2)[1])
                    if leak:
                        out.fail("C06.secret-in-clear", "derived-" + leak.split(" ")[0],
                                 "%s appears in clear in a file whose blocks were derived from the configuration" % leak)
        if tagless:
            out.ev("ok-tagless", kind, mode)
            return out
        # ---- restart, read back with the key ----
        fs.restart()
        decs = list(w.decryptors.values())
        try:
            got = files.read_file(kind, fs, env, name, "path", True, w.key, decs)
        except Exception as e:
            if kind == "bec2" and not decs:
                out.ev("unreadable-no-decryptor")
                return out
            out.fail("C06.readback", "raises-" + type(e).__name__, "reading back with the key raised %s: %s"
                     % (type(e).__name__, e))
            return out
        diff = files.compare_read(kind, w, got)
        if diff:
            out.fail("C06.readback", diff[0], diff[1])
            return out
        try:
            got_nc = files.read_file(kind, fs, env, name, "stream", False, w.key, decs)
            diff = files.compare_read(kind, w, got_nc)
        except Exception as e:
            diff = ("raises-" + type(e).__name__, "raised %s: %s" % (type(e).__name__, e))
        if diff:
            out.fail("C06.readback", "mac-check-off-" + diff[0], "read with the key and MAC checking off: " + diff[1])
            return out
        # ---- rewrite of the read-back object stores the same ciphertext ----
        bf3 = got.bf3file if kind == "bec2" else got
        bin2 = bf3.to_binary(0, w.key)
        r2, i2 = refdir.walk(b"BF3\0\0" + bin2)
        for i in enc_idx:
            e1, e2 = info["entries"][i], i2["entries"][i]
            s1 = binary[e1["adr"]:e1["adr"] + e1["total"]]
            off = e2["adr"] + 5  # addresses in bin2 are relative to offset 0 of bin2
            s2 = (b"BF3\0\0" + bin2)[off:off + e2["total"]]
            if s1 == s2:
                out.probes["rewrite-same-ciphertext"] += 1
            else:
                out.fail("C06.rewrite-differs", "ciphertext", "component %d: re-serialising the read-back object "
                         "stores different ciphertext (%d vs %d bytes)" % (i, len(s2), len(s1)))
        # ---- the same object written again under another session key (a package issued twice) ----
        if case.get("rekey") and bytes.fromhex(case["rekey"]) != w.key:
            key2 = bytes.fromhex(case["rekey"])
            out.probes["rewritten-under-second-key"] += 1
            name2 = "second-" + name
            try:
                if kind == "bf3":
                    w.obj.write_file(name2, key2)
                else:
                    env.install_rng(w.rng)
                    bec2 = env.bec2file.Bec2File(w.obj.bf3file, list(w.obj.auth_blocks.values()), key2)
                    bec2.write_file(name2, w.wenc)
            except Exception as e:
                out.fail("C06.rekey-write-raises", exc_site(e), "writing the same object under a second key raised "
                         "%s: %s" % (type(e).__name__, e))
                return out
            head2, binary2 = files.binary_of(fs.files[name2])
            r2_, i2_ = refdir.walk(binary2)
            for i in enc_idx:
                m = w.model["components"][i]
                e = i2_["entries"][i]
                stored = binary2[e["adr"]:e["adr"] + e["total"]]
                if stored != refaes.cbc_enc(key2, bytes(16), refaes.zpad(m["blob"])):
                    under_old = stored == refaes.cbc_enc(w.key, bytes(16), refaes.zpad(m["blob"]))
                    out.fail("C06.stored-not-ciphertext", "second-key" + ("-old-key-ciphertext" if under_old else ""),
                             "component %d of the file written under the second session key is not AES-CBC of the "
                             "content under that key%s" % (i, " (it is the ciphertext made under the first key)"
                                                           if under_old else ""))
        out.ev("ok", kind, mode, len(enc_idx))
    finally:
        env.restore_registry()
    return out


def shrink(case):
    if case.get("conc"):
        pre = case["preempt"]
        for i in range(len(pre)):
            yield dict(case, preempt=pre[:i] + pre[i + 1:])
        return
    if case.get("blocks") and len(case["blocks"]) > 1:
        for i in range(len(case["blocks"])):
            yield dict(case, blocks=case["blocks"][:i] + case["blocks"][i + 1:])
    if case["obj"].get("config") is not None:
        o = dict(case["obj"])
        o.pop("config")
        yield dict(case, obj=o)
    if case["cipher"] != "real":
        yield dict(case, cipher="real")
    for ns in G.spec_shrinks(case["obj"]):
        yield dict(case, obj=ns)
