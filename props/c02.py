"""C02 — BEC2 write-then-read recovers key, auth blocks and content for every key.
Fault-free configuration of the E-prov simulation: host writer (real Bec2File) -> medium
(SimFS) -> restart -> host reader (real) with every decryptor subset; the session key is
either supplied or drawn through the RNG seam, which is what lets a run land on the
1-in-256 classes (key / CRC bytes equal to 0x00)."""
import itertools

from sim import env, files, prov, refcrc
from sim import gen as G
from sim.core import Outcome, exc_site
from sim.simfs import SimFS, SimCrash

ID = "C02"
LEVEL = "exploration"
ENGINE = "E-prov"
TECHNIQUE = ("deterministic simulation: provisioning round trip on a simulated medium with the RNG behind a seam "
             "(session keys steered into 0x00-byte / CRC-0x00 classes), every decryptor subset incl. a wrong-key arm, "
             "restart between write and read; reference model = object snapshot before the write")
DESIGN_REF = "DESIGN.md section 6, C02"
LEVEL_TEXT = ("seeded search over (block combination, session-key class, decryptor subset, content) with the key drawn "
              "from the simulated RNG or supplied; every openable subset of decryptors is enumerated per file; sampling "
              "over keys and contents, biased to the 1-in-256 classes the property names")
LEVEL_NOTE = ("oracle: same session key, opened blocks equal in kind/selector/version/code, unopened blocks opaque with "
              "the original bytes, component content equal (encrypted components up to the declared length); a reader "
              "given a wrong-key decryptor may raise - only a returned file is compared")
RUNS = {"quick": 4000, "thorough": 120000}
OPTIMIZED_PASS = {"quick": 300, "thorough": 4000}   # extra runs under PYTHONOPTIMIZE=1 (assert statements removed)
RULE = ("per run one BEC2 file: non-empty ordered subset of {customer-key, ECC(selector 0-3, explicit or default "
        "recipient), update(code, version)} blocks, session key supplied or drawn from the RNG seam (forced into "
        "trailing-0x00 / CRC-0x00 classes for half of the drawn keys), content of C01 plus optional encrypted "
        "configuration; written via path/stream, restart, then read with EVERY non-empty subset of able decryptors "
        "plus one wrong-key arm; evaluations = reads; non-trivial = at least one read returned; distinct = digests")
REAL = ["bec2format.bec2file (Bec2File, auth blocks, encryptors)", "bec2format.bf3file", "bec2format.crypto registry",
        "register_crypto_plugin (AES adapter, ECC proxies)", "pyaes", "ecdsa"]
STUBS = ["medium: SimFS", "RNG: SimRng behind register_random_bytes and os.urandom shims"]
PROBES = ["read-without-mac-check", "two-keyless-objects-different-blocks", "runs-with-assertions-disabled", "encryptor-list-reused-for-second-file", "user-defined-ecc-decryptor", "writer-list-reused-for-reading", "encrypt-only-entry-in-decryptor-list", "same-object-second-recipient",
          "write-after-crashed-attempt", "write-after-failed-attempt", "keystore-arm", "writer-keystore", "session-key-trailing-zero", "crc-low-byte-zero", "crc-high-byte-zero", "key-drawn-from-rng",
          "three-blocks", "subset-leaves-block-opaque", "wrong-key-arm-raised", "wrong-key-arm-returned",
          "encrypted-config", "default-recipient-ecc", "customer-key-present"]
ASSUMPTIONS = ["customer key position 0 (the only position that leaves the wrapped session key intact)"]


def gen(st, tier):
    w = st["workload"]
    spec = files.file_spec(w, kind="bec2", p_enc=0.2, max_len=200, p_config=0.5)
    spec["wrong"] = w.randrange(8)
    spec["decoys"] = w.random() < 0.35
    # an earlier attempt to write the same file that failed (full disk) or died (crash) part-way:
    # the real write must replace whatever it left behind
    f = st["faults"]
    spec["prefail"] = [f.choice(["enospc", "crash"]), f.randint(0, 8), f.randint(0, 120)] if f.random() < 0.25 else None
    return spec


def _classify(out, case, w):
    k = w.key
    if k.endswith(b"\0"):
        out.probes["session-key-trailing-zero"] += 1
    for b in case["blocks"]:
        c = None
        if b["t"] == "cust":
            c = refcrc.crc16((bytes.fromhex(b["ck"]) if b["ck"] else bytes(10)) + k)
            if b["ck"]:
                out.probes["customer-key-present"] += 1
        elif b["t"] == "upd":
            c = refcrc.crc16(k + bytes([b["ver"]]))
        elif b["recip"] is None:
            out.probes["default-recipient-ecc"] += 1
        if c is not None:
            if c & 0xFF == 0:
                out.probes["crc-low-byte-zero"] += 1
            if c >> 8 == 0:
                out.probes["crc-high-byte-zero"] += 1
    if not case.get("key"):
        out.probes["key-drawn-from-rng"] += 1
    if len(case["blocks"]) == 3:
        out.probes["three-blocks"] += 1
    if case["obj"].get("config") is not None:
        out.probes["encrypted-config"] += 1


def _block_mismatch(bspec, blk, bf):
    if bspec["t"] == "cust":
        if type(blk) is not bf.InitCustKeyAuthBlock:
            return "customer-key block came back as %r" % (blk,)
    elif bspec["t"] == "ecc":
        if type(blk) is not bf.InitEccAuthBlock or blk.key_selector != bspec["sel"]:
            return "ECC block selector %d came back as %r" % (bspec["sel"], blk)
    else:
        if (type(blk) is not bf.UpdateAuthBlock or blk.version != bspec["ver"]
                or blk.config_security_code != bytes.fromhex(bspec["code"])):
            return "update block (code %s, version %d) came back as %r" % (bspec["code"], bspec["ver"], blk)
    return None


def run(case):
    out = Outcome()
    fs = SimFS()
    env.restore_registry()
    env.use_fs(fs)
    bf = env.bec2file
    name = "dev.bec2"
    try:
        pf = case.get("prefail")
        if pf:
            try:
                files.write_file(case, fs, env, name, plan={pf[1]: (pf[0], pf[2])})
                out.ev("prefail-not-reached")
            except SimCrash:
                out.fired["crash"] += 1
                out.probes["write-after-crashed-attempt"] += 1
                fs.restart()
            except OSError:
                out.fired["enospc"] += 1
                out.probes["write-after-failed-attempt"] += 1
            except Exception as e:
                out.ev("prefail-other", type(e).__name__)
        try:
            w = files.write_file(case, fs, env, name)
        except SimCrash:
            raise
        except Exception as e:
            out.fail("C02.write-raises", exc_site(e), "writing a BEC2 file with blocks %s raised %s: %s"
                     % ([b["t"] for b in case["blocks"]], type(e).__name__, e))
            return out
        _classify(out, case, w)
        if case.get("decoys") and any(b["t"] == "ecc" for b in case["blocks"]):
            out.probes["writer-keystore"] += 1
        head, binary = files.binary_of(w.durable)
        hdr, body_off = prov.parse_header(binary)
        import hashlib
        out.ev("written", len(binary), [t for t, _ in hdr], len(w.rng.draws), hashlib.sha256(w.durable).hexdigest()[:12])
        able = sorted(w.decryptors)
        subsets = []
        for r in range(1, len(able) + 1):
            subsets.extend(itertools.combinations(able, r))
        nev = 0
        for sub in subsets:
            nev += 1
            fs.restart()
            decs = [w.decryptors[i] for i in sub]
            via = "path" if nev % 2 else "stream"
            narrow = dict(case, only_subset=list(sub))
            if case.get("only_subset") is not None and list(sub) != case["only_subset"]:
                continue
            check = nev % 4 != 3      # a valid file reads the same with MAC checking switched off
            if not check:
                out.probes["read-without-mac-check"] += 1
            try:
                got = files.read_file("bec2", fs, env, name, via, check, None, decs)
            except SimCrash:
                raise
            except Exception as e:
                out.fail("C02.read-raises", "%s@%s" % (type(e).__name__, exc_site(e)),
                         "reading (check_cmac=%s) with decryptors for blocks %s of %s raised %s: %s (session key %s)"
                         % (check, list(sub), [b["t"] for b in case["blocks"]], type(e).__name__, e, w.key.hex()),
                         narrow)
                out.ev("read", sub, "raised", type(e).__name__)
                continue
            out.nontrivial = True
            diff = files.compare_read("bec2", w, got, with_key=True)
            if diff:
                out.fail("C02.read-differs", diff[0], "decryptors %s: %s (session key %s)"
                         % (list(sub), diff[1], w.key.hex()), narrow)
                out.ev("read", sub, "differs", diff[0])
                continue
            blocks = list(got.auth_blocks.values())
            if len(blocks) != len(case["blocks"]):
                out.fail("C02.blocks-differ", "count", "%d auth blocks read back, %d written"
                         % (len(blocks), len(case["blocks"])), narrow)
                continue
            for i, (bspec, blk) in enumerate(zip(case["blocks"], blocks)):
                if i in sub:
                    m = _block_mismatch(bspec, blk, bf)
                    if m:
                        out.fail("C02.blocks-differ", "opened-" + bspec["t"], m, narrow)
                elif i in able and type(blk) is not bf.UnknownAuthBlock:
                    # a supplied decryptor of the same kind may legitimately open it (e.g. same class)
                    m = _block_mismatch(bspec, blk, bf)
                    if m:
                        out.fail("C02.blocks-differ", "opened-" + bspec["t"], m, narrow)
                else:
                    out.probes["subset-leaves-block-opaque"] += 1
                    tag, val = hdr[i]
                    if (type(blk) is not bf.UnknownAuthBlock or blk.tag != tag
                            or bytes(blk.binary_value) != val):
                        # default-recipient ECC blocks can never be opened; others only without decryptor
                        out.fail("C02.blocks-differ", "opaque-" + bspec["t"],
                                 "block %d (%s) without decryptor came back as %r, expected opaque bytes %s"
                                 % (i, bspec["t"], blk, val.hex()), narrow)
            out.ev("read", sub, "equal")
        # writer-list arm: the list used for writing (it holds encrypt-only entries such as a public-key-only
        # ECC encryptor) is reused for reading together with the decryptors, in a seeded order
        if able and case.get("only_subset") is None:
            import random as _r
            nev += 1
            fs.restart()
            # encrypt-only entries are kept only where they cannot shadow a supplied decryptor of the same kind
            # and key selector (select_encryptor takes the first entry of the required class and selector; a
            # public-key-only entry listed before the private one is outside "given matching decryptors")
            decs_ = [w.decryptors[j] for j in able]
            dsel = {d.key_selector for d in decs_ if isinstance(d, bf.EccDecryptor)}
            mixed = [e for e in w.wenc if not (type(e) is bf.EccEncryptor and e.key_selector in dsel)]
            mixed += [d for d in decs_ if d not in mixed]
            eccb = [b for b in case["blocks"] if b["t"] == "ecc"]
            extra_sel = eccb[0]["sel"] if eccb else 0
            mixed += [e for e, _ in prov.decoys_for(env, extra_sel)][:2]
            _r.Random(case["wrong"] * 7919 + len(mixed)).shuffle(mixed)
            out.probes["writer-list-reused-for-reading"] += 1
            if any(type(x) is bf.EccEncryptor for x in mixed):
                out.probes["encrypt-only-entry-in-decryptor-list"] += 1
            try:
                got = files.read_file("bec2", fs, env, name, "path", True, None, mixed)
            except SimCrash:
                raise
            except Exception as e:
                out.fail("C02.read-raises", "mixed-list-%s@%s" % (type(e).__name__, exc_site(e)),
                         "reading with the writer's encryptor list plus the decryptors (order %s) raised %s: %s"
                         % ([type(x).__name__ for x in mixed], type(e).__name__, e), dict(case))
            else:
                diff = files.compare_read("bec2", w, got, with_key=True)
                if diff:
                    out.fail("C02.read-differs", "mixed-list-" + diff[0], "mixed-list read: " + diff[1], dict(case))
                else:
                    for i, (bspec, blk) in enumerate(zip(case["blocks"], got.auth_blocks.values())):
                        if i in able:
                            m = _block_mismatch(bspec, blk, bf)
                            if m:
                                out.fail("C02.blocks-differ", "mixed-list-" + bspec["t"],
                                         "mixed-list read (order %s): %s" % ([type(x).__name__ for x in mixed], m),
                                         dict(case))
        # second-recipient arm: the same object written again for another ECC recipient
        eccx = [(i, b) for i, b in enumerate(case["blocks"]) if b["t"] == "ecc" and b["recip"] is not None]
        if eccx and case.get("only_subset") is None:
            nev += 1
            i, b = eccx[0]
            out.probes["same-object-second-recipient"] += 1
            priv2 = prov.make_priv(env, (b["recip"] * 3 + 12345) % (prov.refp256.N - 2) + 1)
            wenc2 = [x for x in w.wenc if not (isinstance(x, bf.EccEncryptor) and x.key_selector == b["sel"])]
            wenc2.append(bf.EccEncryptor(b["sel"], priv2.public_key))
            try:
                env.install_rng(w.rng)
                w.obj.write_file("second.bec2", wenc2)
                fs.restart()
                got = files.read_file("bec2", fs, env, "second.bec2", "path", True, None,
                                      [bf.EccDecryptor(b["sel"], priv2)])
            except SimCrash:
                raise
            except Exception as e:
                out.fail("C02.read-raises", "second-recipient-%s@%s" % (type(e).__name__, exc_site(e)),
                         "the same Bec2File written again for another ECC recipient cannot be read by that "
                         "recipient: %s: %s" % (type(e).__name__, e), dict(case))
            else:
                diff = files.compare_read("bec2", w, got, with_key=True)
                if diff:
                    out.fail("C02.read-differs", "second-recipient-" + diff[0], diff[1], dict(case))
        # reused-list arm: the caller keeps ONE list object of encryptors and writes a second file (another
        # security code) with it
        upd = [b for b in case["blocks"] if b["t"] == "upd"]
        if upd and case.get("only_subset") is None and case["wrong"] % 2 == 0:
            nev += 1
            out.probes["encryptor-list-reused-for-second-file"] += 1
            code2 = bytes(b ^ 0xA5 for b in bytes.fromhex(upd[0]["code"]))
            blocks2 = []
            for b_, blk in zip(case["blocks"], w.obj.auth_blocks.values()):
                blocks2.append(bf.UpdateAuthBlock(code2, 7) if b_["t"] == "upd" else blk)
            try:
                env.install_rng(w.rng)
                bec2 = bf.Bec2File(w.obj.bf3file, blocks2, bytes(b ^ 0x3C for b in w.key))
                bec2.write_file("reuse.bec2", w.wenc)          # the same list object as for the first file
                fs.restart()
                got = files.read_file("bec2", fs, env, "reuse.bec2", "path", True, None,
                                      [bf.ConfigSecurityCodeEncryptor(code2)])
                if got.session_key != bec2.session_key:
                    raise ValueError("session key differs")
            except SimCrash:
                raise
            except Exception as e:
                out.fail("C02.read-raises", "reused-list-%s@%s" % (type(e).__name__, exc_site(e)),
                         "a second file (other security code) written with the same encryptor list object cannot be "
                         "read with its own code: %s: %s" % (type(e).__name__, e), dict(case))
        # two objects made without a block list, blocks added afterwards: each file carries its own blocks only
        if case.get("only_subset") is None and case["wrong"] % 3 == 0:
            nev += 1
            out.probes["two-keyless-objects-different-blocks"] += 1
            codeA = bytes.fromhex("%016x" % (case["wrong"] * 2654435761 % (1 << 64)))
            try:
                env.install_rng(w.rng)
                o1 = bf.Bec2File(w.obj.bf3file)
                o2 = bf.Bec2File(w.obj.bf3file)
                o1.add_auth_block(bf.UpdateAuthBlock(codeA, 5))
                o2.add_auth_block(bf.InitEccAuthBlock(case["wrong"] % 4))
                o1.write_file("k1.bec2")
                o2.write_file("k2.bec2")
                fs.restart()
                tags = []
                for nm in ("k1.bec2", "k2.bec2"):
                    hdr_, _ = prov.parse_header(files.binary_of(fs.files[nm])[1])
                    tags.append([t for t, _ in hdr_])
                got = files.read_file("bec2", fs, env, "k1.bec2", "path", True, None,
                                      [bf.ConfigSecurityCodeEncryptor(codeA)])
                if got.session_key != o1.session_key:
                    raise ValueError("session key differs")
            except SimCrash:
                raise
            except Exception as e:
                out.fail("C02.read-raises", "two-objects-%s@%s" % (type(e).__name__, exc_site(e)),
                         "two Bec2File objects made without a block list, blocks added afterwards: %s: %s"
                         % (type(e).__name__, e), dict(case))
            else:
                if tags != [[2], [3]]:
                    out.fail("C02.blocks-differ", "two-objects", "two Bec2File objects made without a block list got "
                             "an update block and an ECC block respectively; the files carry block tags %s" % tags,
                             dict(case))
        # hardware-unit arm: the ECC decryptor is the caller's own subclass of EccEncryptor with a decrypt() of
        # its own (the documented extension point), not the stock test class
        eccd = [(i, b) for i, b in enumerate(case["blocks"]) if b["t"] == "ecc" and i in w.decryptors]
        if eccd and case.get("only_subset") is None:
            nev += 1
            i, b = eccd[0]
            inner = w.decryptors[i]

            class HsmEcc(bf.EccEncryptor):
                def __init__(self, key_selector, public_key, unit):
                    super().__init__(key_selector, public_key)
                    self._unit = unit

                def decrypt(self, ciphertext):
                    return self._unit.decrypt(ciphertext)
            hsm = HsmEcc(b["sel"], inner.public_key, inner)
            fs.restart()
            out.probes["user-defined-ecc-decryptor"] += 1
            try:
                got = files.read_file("bec2", fs, env, name, "path", True, None,
                                      [hsm] + [w.decryptors[j] for j in able if j != i])
            except SimCrash:
                raise
            except Exception as e:
                out.fail("C02.read-raises", "hsm-%s@%s" % (type(e).__name__, exc_site(e)),
                         "reading with a user-defined ECC decryptor (subclass of EccEncryptor with its own decrypt) "
                         "raised %s: %s" % (type(e).__name__, e), dict(case))
            else:
                diff = files.compare_read("bec2", w, got, with_key=True)
                blk = list(got.auth_blocks.values())[i] if len(got.auth_blocks) > i else None
                if diff:
                    out.fail("C02.read-differs", "hsm-" + diff[0], diff[1], dict(case))
                elif type(blk) is not bf.InitEccAuthBlock:
                    out.fail("C02.blocks-differ", "hsm-ecc-not-opened", "the ECC block was not opened by the "
                             "user-defined decryptor: %r" % (blk,), dict(case))
        # key-store arm: decryptors for the other key selectors (unrelated keys) listed before the
        # matching ones - "given matching decryptors" still holds
        eccs = [b for b in case["blocks"] if b["t"] == "ecc"]
        if able and eccs and case.get("only_subset") is None:
            nev += 1
            out.probes["keystore-arm"] += 1
            fs.restart()
            decs = [d for b in eccs for _, d in prov.decoys_for(env, b["sel"])] + [w.decryptors[j] for j in able]
            try:
                got = files.read_file("bec2", fs, env, name, "path", True, None, decs)
            except SimCrash:
                raise
            except Exception as e:
                out.fail("C02.read-raises", "keystore-%s@%s" % (type(e).__name__, exc_site(e)),
                         "reading with a key store (decryptors for other selectors listed first) raised %s: %s"
                         % (type(e).__name__, e), dict(case))
            else:
                diff = files.compare_read("bec2", w, got, with_key=True)
                if diff:
                    out.fail("C02.read-differs", "keystore-" + diff[0], "key-store read: " + diff[1], dict(case))
                else:
                    for i, (bspec, blk) in enumerate(zip(case["blocks"], got.auth_blocks.values())):
                        if i in able:
                            m = _block_mismatch(bspec, blk, bf)
                            if m:
                                out.fail("C02.blocks-differ", "keystore-" + bspec["t"], "key-store read: " + m, dict(case))
                out.ev("keystore", "ok")
        # wrong-key arm: a decryptor of the right kind with a wrong key next to the right ones
        if able and case.get("only_subset") is None:
            nev += 1
            i = able[case["wrong"] % len(able)]
            b = case["blocks"][i]
            if b["t"] == "cust":
                bad = bf.SoftwareCustKeyEncryptor(bytes(range(16)))
            elif b["t"] == "ecc":
                bad = bf.EccDecryptor(b["sel"], prov.make_priv(env, 424242))
            else:
                bad = bf.ConfigSecurityCodeEncryptor(b"\x55" * 8)
            fs.restart()
            try:
                got = files.read_file("bec2", fs, env, name, "path", True, None,
                                      [bad] + [w.decryptors[j] for j in able])
            except Exception as e:
                out.probes["wrong-key-arm-raised"] += 1
                out.ev("wrong-arm", "raised", type(e).__name__)
            else:
                out.probes["wrong-key-arm-returned"] += 1
                diff = files.compare_read("bec2", w, got, with_key=True)
                if diff and w.model["components"]:
                    out.fail("C02.wrong-key-arm-differs", diff[0],
                             "with a wrong-key decryptor ahead of the right ones a file was returned that "
                             "differs: %s" % diff[1], dict(case))
                out.ev("wrong-arm", "returned", bool(diff))
        out.evals = max(1, nev)
    finally:
        env.restore_registry()
    return out


def shrink(case):
    if case.get("blocks") and len(case["blocks"]) > 1:
        for i in range(len(case["blocks"])):
            nc = dict(case, blocks=case["blocks"][:i] + case["blocks"][i + 1:])
            nc.pop("only_subset", None)
            yield nc
    if case["obj"].get("config") is not None:
        o = dict(case["obj"])
        o.pop("config")
        yield dict(case, obj=o)
    if case.get("via") != "stream":
        yield dict(case, via="stream")
    for ns in G.spec_shrinks(case["obj"]):
        yield dict(case, obj=ns)
