"""C13 — BF2 import preserves firmware bytes and rejects what BF3 cannot represent.
The legacy file is read line by line from the simulated medium; a lost, duplicated or
re-ordered data line is precisely a gap/overlap, and the property demands rejection rather
than conversion with loss.  Ground truth: the generator's section list (sim/bf2gen.py);
RefBF2 recomputes from the surviving lines what they describe."""
import re

from sim import env, bf2gen
from sim.core import Outcome, exc_site
from sim.simfs import SimFS

ID = "C13"
LEVEL = "exploration"
ENGINE = "E-store"
TECHNIQUE = ("deterministic simulation with storage-fault injection at line granularity: BF2 texts generated from a ground "
             "truth are placed on the simulated medium, one fault (data line lost / duplicated / swapped, LF or CRLF, path "
             "or stream) is applied to one section, the real importer runs, and the result is compared with the ground "
             "truth or with what RefBF2 says the surviving lines describe")
DESIGN_REF = "DESIGN.md section 6, C13"
LEVEL_TEXT = ("seeded search over (section mix, image sizes incl. 64 KiB page crossings, line sizes 1-250, fault position); the "
              "fault-free arm checks bytes, tags, ordering, marker handling and the summary comment against the ground truth; "
              "sampling, with first/last/second-to-last/page-first line positions always among the fault positions tried")
LEVEL_NOTE = ("conservative sub-grammar: every section states all of its instructions itself (CHECK_FWVER first), so expected "
              "tags follow from the property text and not from how instructions persist; instruction lines are never faulted")
RUNS = {"quick": 16000, "thorough": 600000}
OPTIMIZED_PASS = {"quick": 800, "thorough": 12000}   # extra runs under PYTHONOPTIMIZE=1 (assert statements removed)
RULE = ("per run one BF2 text (1-4 sections over all mapped and ignored tag types, images 1..N bytes) and one fault kind in "
        "{none, line lost, line duplicated, two lines swapped} at a seeded or structural position inside one section's data "
        "lines; also the memory-image helpers on the same faulted line group; non-trivial = a fault changed the text or the "
        "fault-free comparison covered >= 1 component; distinct = digests")
REAL = ["bec2format.bf3file (parse_bf2_file, bf2_import, exec_bf2instrs, bf2_unpack_payload, bf2_convert_payload, "
        "annotations, pfid2_filter_to_str)", "bec2format.hwcids"]
STUBS = ["medium: SimFS (text layer, CRLF)", "BF2 generator + ground truth + RefBF2 (sim/bf2gen.py)", "filter-expression "
         "evaluator (this file)"]
PROBES = ["section-without-own-instructions", "marker-with-empty-value", "line-announces-more-than-it-carries", "runs-with-assertions-disabled", "crlf-untranslated", "unknown-tag-type", "whole-page-lost", "middle-page-lost", "page-crossing", "gap-before-last-line", "gap-at-first-line", "lost-last-line", "dup-line", "swap-lines",
          "ignored-section", "no-marker", "blob-gap-rejected", "bf2compat-faulted", "memimage-helper", "filter-expression",
          "three-types-sorted", "crlf"]
ASSUMPTIONS = ["hardware-id names used in comparisons are transcribed into sim/bf2gen.py"]


def gen(st, tier):
    w = st["workload"]
    f = st["faults"]
    big = w.random() < (0.05 if tier == "quick" else 0.08)
    spec = bf2gen.gen_spec(w, max_image=(70000 if w.random() < 0.5 else 200000) if big else w.choice([60, 300, 1500]),
                           p_unknown=0.06)
    if big and w.random() < 0.5:
        # make sure one section really spans three or more 64 KiB pages
        for sec in spec["sections"]:
            if bf2gen.PAGES[sec["tt"]] >= 4:
                sec["image"]["len"] = w.randint(131073, 200000)
                sec["ls"] = w.choice([128, 250, 250])
                break
    fault = None
    r = f.random()
    if r < 0.7:
        kind = f.choice(["lost", "lost", "lost", "dup", "swap", "lostpage", "lenflip"])
        si = f.randrange(len(spec["sections"]))
        multi = [k for k, sec in enumerate(spec["sections"]) if sec["image"]["len"] > 0x10000]
        if multi and f.random() < 0.6:
            kind, si = "lostpage", f.choice(multi)
        fault = [kind, si, f.choice(["first", "last", "last-1", "second", "page", "frac"]),
                 f.random(), f.random()]
    return {"bf2": spec, "fault": fault, "via": w.choice(["path", "stream", "stream-raw"])}


# --------------------------------------------------------------------------
def _tokens(s):
    return re.findall(r"[()&|!]|[A-Za-z0-9_]+", s)


def eval_expr(expr, present, name2id):
    toks = _tokens(expr)
    pos = [0]
    if not toks:
        return True       # no condition at all (a filter with zero entries): the empty conjunction

    def atom():
        t = toks[pos[0]]
        pos[0] += 1
        if t == "!":
            return not atom()
        if t == "(":
            v = or_()
            assert toks[pos[0]] == ")"
            pos[0] += 1
            return v
        if t.startswith("0x"):
            return int(t, 16) in present
        return name2id[t] in present

    def or_():
        v = and_()
        while pos[0] < len(toks) and toks[pos[0]] == "|":
            pos[0] += 1
            v = and_() or v
        return v

    def and_():
        v = atom()
        while pos[0] < len(toks) and toks[pos[0]] == "&":
            pos[0] += 1
            v = atom() and v
        return v

    v = or_()
    assert pos[0] == len(toks), "trailing tokens"
    return v


NAME2ID = {v: k for k, v in bf2gen.HWNAMES.items()}
NAME2ID.update({"UC_MK22FN512XXX12": 0x0B, "UC_MK64FX512XXX12": 0x0C, "UC_AT90MEGA128": 0x01})


def _filter_equiv(expr, fbytes):
    ids = sorted({int.from_bytes(fbytes[2 + 2 * i:4 + 2 * i], "big") & 0x3FFF for i in range(fbytes[1])})
    for mask in range(1 << len(ids)):
        present = {ids[i] for i in range(len(ids)) if mask >> i & 1}
        if bool(eval_expr(expr, present, NAME2ID)) != bool(bf2gen.filter_eval(fbytes, present)):
            return "differs for present=%s" % sorted(present)
    return None


def _check_comment(out, comments, idx, comp):
    key = "Component%d" % idx
    c = comments.get(key)
    if c is None:
        out.fail("C13.summary", "missing", "no %s summary comment" % key)
        return
    t = comp["type"]
    tags = comp["tags"]
    if t == 2:
        ok = c.startswith("Main Firmware")
    elif t == 0:
        ok = c.startswith(bf2gen.INTF_NAMES[tags[bf2gen.T_INTF][0]] + " Loader Firmware")
    else:
        hw = int.from_bytes(tags[bf2gen.T_HWCID], "big")
        nm = bf2gen.HWNAMES.get(hw)
        ok = (c.startswith(nm + " Firmware") if nm else " Firmware" in c)
    if not ok:
        out.fail("C13.summary", "kind", "summary %r does not name the component kind (type %d, tags %s)"
                 % (c, t, {hex(k): v.hex() for k, v in tags.items()}))
    if bf2gen.T_PFID2 in tags:
        m = re.search(r"\[PFID2-Filter: (.*)\]", c)
        if not m:
            out.fail("C13.summary", "filter-missing", "summary %r lacks the platform filter" % c)
            return
        out.probes["filter-expression"] += 1
        try:
            d = _filter_equiv(m.group(1), tags[bf2gen.T_PFID2])
        except Exception as e:
            d = "unparsable expression (%s)" % e
        if d:
            out.fail("C13.summary", "filter-expression", "filter %s rendered as %r: %s"
                     % (tags[bf2gen.T_PFID2].hex(), m.group(1), d))


def _pick(lines, where, fr):
    n = len(lines)
    if where == "first":
        return 0
    if where == "last":
        return n - 1
    if where == "last-1":
        return max(0, n - 2)
    if where == "second":
        return min(1, n - 1)
    if where == "page":
        for i, ln in enumerate(lines):
            if ln["offs"] and ln["offs"] % 0x10000 == 0:
                return i
        return n // 2
    return min(n - 1, int(fr * n))


def run(case):
    out = Outcome()
    fs = SimFS()
    env.restore_registry()
    env.use_fs(fs)
    spec = case["bf2"]
    try:
        items = bf2gen.render_items(spec)
        truth = bf2gen.truth(spec)
        fault = case["fault"]
        lenflip = None
        fsi = None
        surviving = None
        if spec.get("crlf"):
            out.probes["crlf"] += 1
            if case["via"] == "stream-raw":
                out.probes["crlf-untranslated"] += 1
        if any(bf2gen.TAGTYPES.get(s["tt"], 0) is None for s in spec["sections"]):
            out.probes["ignored-section"] += 1
        unknown = [s["tt"] for s in spec["sections"] if bf2gen.is_unknown(s["tt"])]
        if unknown:
            out.probes["unknown-tag-type"] += 1
        if any(s["image"]["len"] > 0x10000 for s in spec["sections"]):
            out.probes["page-crossing"] += 1
        if fault:
            kind, si, where, fr1, fr2 = fault
            si = si % len(spec["sections"])
            idx = [k for k, it in enumerate(items) if it[0] == "data" and it[1] == si]
            lines = [items[k][3] for k in idx]
            if len(idx) >= 1:
                i = _pick(lines, where, fr1)
                if kind == "lostpage":
                    types = sorted({ln["type"] for ln in lines})
                    if len(types) < 2:
                        kind = "lost"
                    else:
                        # a whole 64 KiB page of data lines is gone (a lost extent of the medium)
                        # never the first page: without it the group starts with another tag type and
                        # is a different (unmapped) section altogether
                        victim = types[1 + int(fr1 * (len(types) - 1)) % (len(types) - 1)]
                        for k in reversed(idx):
                            if items[k][3]["type"] == victim:
                                del items[k]
                        out.fired["page-lost"] += 1
                        out.probes["whole-page-lost"] += 1
                        if victim != types[-1]:
                            out.probes["middle-page-lost"] += 1
                if kind == "lostpage":
                    pass
                elif kind == "lenflip":
                    # bit rot in the length byte inside a data line of a blob section: the line announces more
                    # payload than it carries (only this direction is judged)
                    info_ = bf2gen.TAGTYPES.get(spec["sections"][si]["tt"])
                    ln_ = lines[i]
                    v_ = ln_["raw"][4]
                    zero_bits = [b_ for b_ in range(8) if not v_ >> b_ & 1]
                    if info_ is None or info_[2] != 0 or not zero_bits or unknown:
                        fault = None
                    else:
                        nv = v_ | 1 << zero_bits[int(fr2 * len(zero_bits)) % len(zero_bits)]
                        raw_ = ln_["raw"][:4] + bytes([nv]) + ln_["raw"][5:]
                        it_ = items[idx[i]]
                        items[idx[i]] = (it_[0], it_[1], ":" + raw_.hex().upper(), it_[3])
                        out.fired["line-length-flip"] += 1
                        out.probes["line-announces-more-than-it-carries"] += 1
                        lenflip = "blob section %d: data line %d announces %d payload bytes and carries %d" % (
                            si, i, nv - 2, v_ - 2)
                        fault = ["lenflip"] + list(fault[1:])
                    kind = "done"
                elif kind == "lost":
                    if len(idx) == 1:
                        fault = None   # losing the only line leaves an empty group: not this property's subject
                    else:
                        del items[idx[i]]
                        out.fired["line-lost"] += 1
                        if i == len(idx) - 1:
                            out.probes["lost-last-line"] += 1
                        elif i == len(idx) - 2:
                            out.probes["gap-before-last-line"] += 1
                        if i == 0:
                            out.probes["gap-at-first-line"] += 1
                elif kind == "dup":
                    items.insert(idx[i], items[idx[i]])
                    out.fired["line-dup"] += 1
                    out.probes["dup-line"] += 1
                else:
                    # both lines in the same 64 KiB page: a line of the base tag type moved to the front of
                    # a later load group would legitimately start a new section
                    same = [k for k in range(len(idx)) if lines[k]["type"] == lines[i]["type"] and k != i]
                    j = same[int(fr2 * len(same)) % len(same)] if same else i
                    if same:
                        items[idx[i]], items[idx[j]] = items[idx[j]], items[idx[i]]
                        out.fired["line-swap"] += 1
                        out.probes["swap-lines"] += 1
                    else:
                        fault = None
                if fault and kind != "done":
                    fsi = si
                    surviving = [it[3] for it in items if it[0] == "data" and it[1] == si]
            else:
                fault = None
        text = bf2gen.render(spec, items)
        name = "fw.bf2"
        fs.files[name] = text.encode("utf-8")
        out.ev("text", len(text), len(spec["sections"]), fault[0] if fault else None, fsi)

        def imp():
            if case["via"] == "path":
                return env.bf3file.Bf3File.bf2_import(name)
            # "stream-raw": the caller opened the file with newline="" (or holds the text in a StringIO): CRLF
            # line ends reach the parser untranslated
            h = fs.open(name, "r", newline="" if case["via"] == "stream-raw" else None)
            try:
                return env.bf3file.Bf3File.bf2_import(h)
            finally:
                h.close()
        try:
            got = imp()
            err = None
        except Exception as e:
            got = None
            err = e
        # ---- what must happen ----
        expect_reject = None
        may_reject = False
        if any(s_.get("twin") for s_ in spec["sections"]):
            out.probes["section-without-own-instructions"] += 1
        if spec["marker"] == "":
            out.probes["marker-with-empty-value"] += 1
        if spec["marker"] is None:
            out.probes["no-marker"] += 1
            expect_reject = "no BF3-update marker"
        exp = [dict(c) for c in truth]
        if unknown:
            expect_reject = expect_reject or ("tag type 0x%02X cannot be represented" % unknown[0])
        if lenflip:
            out.nontrivial = True
            expect_reject = expect_reject or lenflip
        if fault and fsi is not None and bf2gen.TAGTYPES.get(spec["sections"][fsi]["tt"]) is not None and not unknown:
            out.nontrivial = True
            fmt = bf2gen.TAGTYPES[spec["sections"][fsi]["tt"]][2]
            tgt = [c for c in exp if c["si"] == fsi][0]
            if fmt == 0:
                verdict, val = bf2gen.extents_verdict([(ln["offs"], ln["data"]) for ln in surviving])
                bmap = {}
                for ln in surviving:
                    for k_, b_ in enumerate(ln["data"]):
                        bmap[ln["offs"] + k_] = b_
                contiguous = sorted(bmap) == list(range(len(bmap)))
                if verdict == "image":
                    tgt["payload"] = val
                elif contiguous:
                    # lines out of order / repeated, but together they still describe a complete image from 0:
                    # the importer may reject, or accept exactly that image
                    tgt["payload"] = bytes(bmap[k_] for k_ in range(len(bmap)))
                    may_reject = True
                else:
                    expect_reject = expect_reject or ("blob section %d: %s" % (fsi, val))
            else:
                out.probes["bf2compat-faulted"] += 1
                tgt["payload"] = b"".join(ln["raw"] for ln in surviving)
        if expect_reject:
            if err is None:
                ident = "marker" if "marker" in expect_reject else ("unknown-tag-type" if "tag type" in expect_reject
                                                                     else fault[0])
                out.fail("C13.converted-with-loss", ident,
                         "import succeeded although it must be rejected (%s); fault %s" % (expect_reject, case["fault"]))
            else:
                if "blob section" in expect_reject:
                    out.probes["blob-gap-rejected"] += 1
                if not isinstance(err, (env.error.FormatError, ValueError)):
                    out.ev("rejected-with", type(err).__name__)
            out.ev("rejected", type(err).__name__ if err else None)
        else:
            if err is not None and may_reject and isinstance(err, env.error.FormatError):
                out.ev("rejected-out-of-order")
            elif err is not None:
                out.fail("C13.import-raises", "%s@%s" % (type(err).__name__, exc_site(err)),
                         "import of a representable file raised %s: %s (fault %s)" % (type(err).__name__, err, case["fault"]))
            else:
                out.nontrivial = out.nontrivial or bool(exp)
                if len(got.components) != len(exp):
                    out.fail("C13.components", "count", "%d components, expected %d (one per non-ignored section)"
                             % (len(got.components), len(exp)))
                else:
                    if len({c["type"] for c in exp}) == 3:
                        out.probes["three-types-sorted"] += 1
                    for i, (c, e) in enumerate(zip(got.components, exp)):
                        if dict(c.description) != e["tags"]:
                            out.fail("C13.tags", "differ", "component %d tags %s, instructions state %s" % (
                                i, {hex(k): v.hex() for k, v in c.description.items()},
                                {hex(k): v.hex() for k, v in e["tags"].items()}))
                        if bytes(c.blob) != e["payload"]:
                            what = "blob" if e["fmt"] == 0 else "bf2-compatible"
                            out.fail("C13.payload", what + ("-" + fault[0] if fault and e["si"] == fsi else ""),
                                     "component %d (%s, section %d): payload has %d bytes, the data lines describe %d "
                                     "(first difference at %s); fault %s"
                                     % (i, what, e["si"], len(c.blob), len(e["payload"]),
                                        next((k for k, (a, b) in enumerate(zip(c.blob, e["payload"])) if a != b), "length"),
                                        case["fault"]))
                        _check_comment(out, got.comments, i, e)
                out.ev("imported", len(got.components))
        # ---- memory-image helpers on the (faulted) line group of one blob/any section ----
        si2 = fsi if fsi is not None else 0
        lines2 = surviving if surviving is not None else [it[3] for it in items if it[0] == "data" and it[1] == si2]
        if lines2:
            out.probes["memimage-helper"] += 1
            Bf2BinLine = env.bf3file.Bf2BinLine
            bl = [Bf2BinLine(ln["type"], int.from_bytes(ln["raw"][:2], "big"), ln["raw"][4:], ln["raw"]) for ln in lines2]
            want = {}
            for ln in lines2:
                for k, b in enumerate(ln["data"]):
                    want[ln["offs"] + k] = b
            try:
                raw = env.bf3file.Bf3File.bf2_convert_payload(bl, env.bf3file.BF3FMT.MEMORYIMAGE)
            except Exception as e:
                out.fail("C13.memimage", "raises-" + type(e).__name__, "memory-image conversion raised %s: %s" % (type(e).__name__, e))
            else:
                have = {}
                pos = 0
                okp = True
                while pos < len(raw):
                    adr = int.from_bytes(raw[pos:pos + 4], "big")
                    ln_ = int.from_bytes(raw[pos + 4:pos + 8], "big")
                    data = raw[pos + 8:pos + 8 + ln_]
                    if len(data) != ln_:
                        okp = False
                        break
                    for k, b in enumerate(data):
                        have[adr + k] = b
                    pos += 8 + ln_
                if not okp or have != want:
                    missing = sorted(set(want) - set(have))
                    out.fail("C13.memimage", "extent-lost" if missing else "differs",
                             "memory image lacks %d of %d bytes described by the lines (first missing address %s); fault %s"
                             % (len(missing), len(want), missing[0] if missing else None, case["fault"]))
    finally:
        env.restore_registry()
    return out


def shrink(case):
    if case["fault"]:
        yield dict(case, fault=None)
    for ns in bf2gen.spec_shrinks(case["bf2"]):
        yield dict(case, bf2=ns)
