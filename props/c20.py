"""C20 — shared curve objects and the reader-writer lock under every schedule.
E-sched: real threads, one runnable at a time, pre-emption decided by the simulator at
line/instruction events of the code under test and at every SimLock operation.

part "lock":  the unmodified RWLock/_LightSwitch over SimLocks, 2 readers + 2 writers.
part "curve": threads operate on a shared *fresh* generator (lazily built table) and a
              shared Jacobian public point (rescaled in place); results must equal the
              sequential execution and the independent affine arithmetic.
"""
import importlib
import pickle

from sim import env, refp256, sched
from sim.core import Outcome

ID = "C20"
LEVEL = "exploration"
ENGINE = "E-sched"
TECHNIQUE = ("deterministic simulation: controlled thread scheduler (baton-passed real threads, pre-emption at "
             "sys.monitoring line/instruction events and lock operations, virtual clock for stalled holders), seeded "
             "schedule search plus single-pre-emption sweeps; oracle = sequential execution + independent arithmetic, "
             "lock invariants from ghost state after every step")
DESIGN_REF = "DESIGN.md section 6, C20"
LEVEL_TEXT = ("seeded search over thread schedules of the real code: random schedules with 0-4 pre-emptions and, in the "
              "thorough tier, one run per single pre-emption point of the first thread's program (the schedule family "
              "the property names); lock part: every interleaving class reached is counted (distinct lock-operation "
              "sequences and abstract states); a clean batch is evidence, not a proof")
LEVEL_NOTE = ("pre-emption granularity is the source line of ellipticcurve.py / numbertheory.py / _rwlock.py (bytecode "
              "instruction inside the publishing functions in instr mode); SimLock replaces threading.Lock only; "
              "interleavings inside C builtins or a single bytecode are out of reach")
RUNS = {"quick": 24000, "thorough": 600000}
# the first chunks of the thorough tier hold the systematic NIST256p sweeps (a quarter of a second per run): the chunk
# cap is only a second safety net behind the per-run watchdog and must not trip on a loaded machine
CHUNK_WALL_CAP = {"quick": 900, "thorough": 14400}
OPTIMIZED_PASS = {"quick": 1200, "thorough": 16000}   # extra runs under PYTHONOPTIMIZE=1 (assert statements removed)
RULE = ("lock part: seeded programs for up to 2 readers + 2 writers (1-3 rounds, 0-3 yields and optional stall inside the "
        "critical section) x seeded schedule (pre-emption steps + choice list); curve part: 2-3 thread programs over "
        "shared fresh generator / shared Jacobian point on a toy prime-order curve, SECP112r1/128r1 or NIST256p, or shared "
        "twisted-Edwards points on Ed25519; precompute() against verify() on a DER-parsed key (either sequential order) x "
        "seeded schedule or single-pre-emption sweep; non-trivial = at least one pre-emption or forced switch between "
        "unfinished threads happened; distinct = distinct event-log digests (lock-operation interleaving / decision "
        "sequence + results)")
REAL = ["ecdsa._rwlock.RWLock/_LightSwitch (unmodified algorithm)", "ecdsa.ellipticcurve.PointJacobi / PointEdwards / CurveFp",
        "ecdsa.numbertheory", "ecdsa.keys / ecdh / plug-in ECC proxies (library-level programs on NIST256p)"]
STUBS = ["threading.Lock -> SimLock (parks threads, raises on release of an unlocked lock)",
         "thread scheduling -> Sched (baton passing)", "clock -> virtual (sim.sleep)", "RNG -> per-thread seeded stream"]
PROBES = ["edwards-point-class", "lin-two-sequential-orders", "lin-orders-differ", "runs-with-assertions-disabled", "two-lock-objects", "lock-sweep-run", "preempt-inside-mul_add", "two-readers-inside", "writer-parked-while-readers-inside", "reader-parked-behind-writer",
          "preempt-inside-precompute", "preempt-inside-scale", "table-built-in-run", "clock-jump",
          "three-threads", "sweep-run", "instr-mode"]
THOROUGH_ONLY_PROBES = ["sweep-run", "lock-sweep-run"]
ASSUMPTIONS = ["writer priority / who goes first is not part of the property and is never demanded",
               "releasing a mutex from another thread than the taker is legal (light switch) and not flagged"]

_rwlock = importlib.import_module("register_crypto_plugin.ecdsa._rwlock")
_ec = importlib.import_module("register_crypto_plugin.ecdsa.ellipticcurve")
_nt = importlib.import_module("register_crypto_plugin.ecdsa.numbertheory")
_curves = importlib.import_module("register_crypto_plugin.ecdsa.curves")
_keys = importlib.import_module("register_crypto_plugin.ecdsa.keys")
_ecdsa = importlib.import_module("register_crypto_plugin.ecdsa.ecdsa")
_ecdh = importlib.import_module("register_crypto_plugin.ecdsa.ecdh")
_util = importlib.import_module("register_crypto_plugin.ecdsa.util")

INSTR_FUNCS = {"_maybe_precompute", "scale", "x", "y", "to_affine", "__mul__", "_mul_precompute",
               "mul_add", "__eq__", "__add__", "double", "__getstate__"}

_CODES = {}
_RW = {}


def _rwlock_code():
    """the lock module compiled once per process; every run executes this code object afresh with the
    `threading` module replaced by the simulator's shim, so locks created at import time or in class
    bodies are SimLocks too (same code objects every time: the monitoring set-up stays valid)"""
    if "co" not in _RW:
        with open(_rwlock.__file__) as f:
            _RW["co"] = compile(f.read(), _rwlock.__file__, "exec")
    return _RW["co"]


def _fresh_rwlock_module(s):
    import sys
    ns = {"__name__": _rwlock.__name__, "__file__": _rwlock.__file__}
    real = sys.modules["threading"]
    sys.modules["threading"] = sched.ThreadingShim(s)
    try:
        exec(_rwlock_code(), ns)
    finally:
        sys.modules["threading"] = real
    return ns


def _configure(mode):
    """mode: 'lock' | 'curve' | 'curve-instr'"""
    mon = sched.Monitor.get()
    if mode not in _CODES:
        if mode == "lock":
            _CODES[mode] = (sched.nested_code_objects(_rwlock_code()), [])
        else:
            fl = [_ec.__file__, _nt.__file__, _keys.__file__, _ecdsa.__file__, _ecdh.__file__,
                  _util.__file__, env.plugin.__file__, _curves.__file__]
            line = sched.code_objects_of(fl)
            instr = []
            if mode == "curve-instr":
                instr = [c for c in line if c.co_filename == _ec.__file__ and c.co_name in INSTR_FUNCS
                         and "PointJacobi" in c.co_qualname]
            _CODES[mode] = (line, instr)
    line, instr = _CODES[mode]
    mon.configure(line, instr, key=mode)


# =========================================================================
# generation
# =========================================================================
def _sched_spec(r, horizon_hint=None, max_pre=4):
    d = r.choice([0, 1, 1, 2, 2, 3, max_pre])
    pre = [["frac", r.random()] for _ in range(d)]
    if r.random() < 0.25:
        pre.append(["shallow", 0, r.random()])     # at an API-level line (plug-in / key-agreement wrapper)
    return pre, [r.randrange(1000) for _ in range(24)]


CURVES = {"toy": None, "secp112r1": "SECP112r1", "secp128r1": "SECP128r1", "nist256p": "NIST256p", "ed25519": "Ed25519"}
# the twisted-Edwards point class of the same module has the same two pieces of shared mutable state
EDW_OPS = ["mulG", "mulG", "scaleP", "scaleP", "xyP", "xyP", "eqPQ", "addPQ", "dblP", "mulP", "pickleG"]

POINT_OPS = ["mulG", "mulG", "mulG", "muladd", "scaleP", "affP", "xyP", "eqPQ", "addPQ", "dblP", "pickleG", "mulP"]
LIB_OPS = ["keygen", "signverify", "ecies", "ecdh", "verifyP", "verifyP", "dhshared", "dhshared", "precomputeP"]


def _prog(r, curve, order):
    n = r.choice([1, 1, 2, 3])
    prog = []
    for _ in range(n):
        ops = EDW_OPS if curve == "ed25519" else POINT_OPS + (LIB_OPS if curve == "nist256p" else [])
        op = r.choice(ops)
        if op in ("mulG", "mulP"):
            k = r.choice([2, 3, order - 1, order + 1, r.randrange(2, 2 * order)])
            prog.append([op, k])
        elif op == "muladd":
            prog.append([op, r.randrange(1, order), r.randrange(1, order)])
        elif op == "signverify":
            prog.append([op, r.randrange(1 << 32)])
        elif op == "ecies":
            prog.append([op, r.randrange(4)])
        elif op == "dhshared":
            prog.append([op, r.randrange(3)])
        elif op == "precomputeP":
            prog.append([op, r.random() < 0.7])
        else:
            prog.append([op])
    return prog


ORDERS = {"toy": 19}


def _order(curve):
    if curve not in ORDERS:
        ORDERS[curve] = int(getattr(_curves, CURVES[curve]).order)
    return ORDERS[curve]


def gen(st, tier):
    w = st["workload"]
    s = st["schedule"]
    i = w.randrange(100)
    if tier == "thorough" and st.index < SWEEP_TOTAL:
        return _gen_sweep_systematic(st.index)
    if tier == "thorough" and st.index < SWEEP_TOTAL + LOCK_SWEEP_TOTAL:
        return _gen_lock_sweep(st.index - SWEEP_TOTAL)
    if tier == "thorough" and w.random() < 0.15:
        return _gen_sweep(w, s)
    if i < 62:
        nr, nw = w.choice([(1, 1), (2, 1), (1, 2), (2, 2), (2, 2), (2, 0), (0, 2)])
        threads = []
        for role in ["r"] * nr + ["w"] * nw:
            rounds = []
            for _ in range(w.choice([1, 1, 2, 3])):
                rounds.append({"y": w.choice([0, 1, 1, 2, 3]),
                               "sleep": w.choice([None, None, None, 1.0, 5.0])})
            threads.append({"role": role, "rounds": rounds})
        w.shuffle(threads)
        pre, ch = _sched_spec(s)
        case = {"part": "lock", "threads": threads, "preempt": pre, "choices": ch}
        if w.random() < 0.2:
            # a second lock object, always taken (as reader) while holding the first one: a consistent order
            case["two_locks"] = True
            for t in threads:
                t["nest"] = w.random() < 0.6
        return case
    if 90 <= i < 93:
        return _gen_lin(w, s)
    if i == 95:
        return _gen_curve(w, s, "ed25519")
    if i < 96:
        curve = "toy" if i < 90 else w.choice(["secp112r1", "secp128r1"])
    else:
        curve = "nist256p"
    return _gen_curve(w, s, curve, instr=(curve == "toy" and w.random() < (0.3 if tier == "thorough" else 0.12)))


LIN_OPS = ("precomputeD", "verifyD")


def _gen_lin(w, s):
    """one thread switches a shared public key (parsed from DER: its point does not know its order) to table
    mode while another verifies with it.  The outcomes - exceptions included - must be those of one of the two
    sequential orders."""
    lazy = w.random() < 0.8
    first = w.randrange(2)
    progs = [[["precomputeD", lazy]], [["verifyD"]]]
    pre = [["localfrac", first, s.random()]]
    if s.random() < 0.3:
        pre.append(["frac", s.random()])
    return {"part": "curve", "curve": "nist256p", "progs": progs, "world": w.getrandbits(32), "preempt": pre,
            "choices": [s.randrange(1000) for _ in range(8)], "instr": False, "first": first, "lin": True}


def _gen_curve(w, s, curve, instr=False):
    order = _order(curve)
    nthreads = w.choice([2, 2, 2, 3])
    progs = [_prog(w, curve, order) for _ in range(nthreads)]
    if curve == "nist256p" and w.random() < 0.35:
        # one private-key object, two threads, different peers
        a = w.randrange(3)
        progs = [[["dhshared", a]], [["dhshared", (a + 1 + w.randrange(2)) % 3]]]
    # make sure somebody uses the generator so that the table is built inside the run
    if curve != "ed25519" and not any(op[0] in ("mulG", "muladd", "keygen", "signverify", "verifyP") for p in progs for op in p):
        progs[0].insert(0, ["mulG", w.randrange(2, order)])
    pre, ch = _sched_spec(s)
    case = {"part": "curve", "curve": curve, "progs": progs, "world": w.getrandbits(32),
            "preempt": pre, "choices": ch, "instr": instr}
    if progs[0][0][0] == "dhshared":
        case["first"] = 0
        case["preempt"] = [["shallow", 0, s.random()]] + pre[:1]
    return case


# systematic single-pre-emption sweeps (thorough tier): for each configuration, thread 0 is pre-empted at its
# j-th own step for j = 0..K-1 (K >= the step count of thread 0, checked and reported in evidence), thread 1
# then runs to completion, then thread 0 finishes.
SWEEPS = []
for _first, _second in ((["mulG", 7], ["mulG", 11]), (["mulG", 13], ["muladd", 3, 5]), (["scaleP"], ["xyP"]),
                        (["scaleP"], ["scaleP"]), (["affP"], ["eqPQ"]), (["muladd", 5, 9], ["mulG", 4]),
                        (["mulG", 9], ["pickleG"]), (["scaleP"], ["muladd", 2, 3])):
    SWEEPS.append(("toy", _first, _second, 1024))
for _first, _second in ((["mulG", 123456789], ["mulG", 987654321]), (["scaleP"], ["muladd", 1234567, 7654321]),
                        (["mulG", 55555], ["affP"])):
    SWEEPS.append(("secp112r1", _first, _second, 8192))
for _first, _second in ((["mulG", 0x1234567890ABCDEF1234567890ABCDEF], ["mulG", 0xFEDCBA0987654321FEDCBA0987654321]),
                        (["mulG", 0x1234567890ABCDEF1234567890ABCDEF], ["signverify", 1])):
    SWEEPS.append(("nist256p", _first, _second, 16384))
SWEEPS.append(("nist256p", ["precomputeD", True], ["verifyD"], 128))
SWEEPS.append(("ed25519", ["xyP"], ["scaleP"], 256))
SWEEPS.append(("ed25519", ["scaleP"], ["xyP"], 256))
SWEEPS.append(("ed25519", ["eqPQ"], ["scaleP"], 512))
SWEEP_OFFSETS = []
_acc = 0
for _c in SWEEPS:
    SWEEP_OFFSETS.append(_acc)
    _acc += _c[3]
SWEEP_TOTAL = _acc


# systematic lock sweeps (thorough tier): for four small thread sets, every schedule with one or two
# pre-emptions (global steps i < j <= 128, which covers every step of these runs) x 9 choice patterns
LOCK_SWEEPS = [["r", "w"], ["r", "r", "w"], ["r", "w", "w"], ["r", "r", "w", "w"]]
LOCK_NMAX = 128
LOCK_PAIRS = LOCK_NMAX * (LOCK_NMAX - 1) // 2 + LOCK_NMAX       # pairs i<j plus singles
LOCK_SLOTS = LOCK_PAIRS * 9
LOCK_SWEEP_TOTAL = LOCK_SLOTS * len(LOCK_SWEEPS)


def _gen_lock_sweep(index):
    k, slot = divmod(index, LOCK_SLOTS)
    pidx, cpat = divmod(slot, 9)
    if pidx < LOCK_NMAX:
        pre = [pidx + 1]
    else:
        q = pidx - LOCK_NMAX
        # decode the q-th pair (i, j), 1 <= i < j <= NMAX
        i = 1
        while q >= LOCK_NMAX - i:
            q -= LOCK_NMAX - i
            i += 1
        pre = [i, i + 1 + q]
    c1, c2 = divmod(cpat, 3)
    threads = [{"role": r, "rounds": [{"y": 1, "sleep": None}]} for r in LOCK_SWEEPS[k]]
    return {"part": "lock", "threads": threads, "preempt": [["abs", p] for p in pre], "choices": [c1, c2] * 8,
            "first": 0, "lock_sweep": k}


def _gen_sweep_systematic(index):
    k = max(i for i, off in enumerate(SWEEP_OFFSETS) if off <= index)
    curve, first, second, K = SWEEPS[k]
    j = index - SWEEP_OFFSETS[k]
    case = {"part": "curve", "curve": curve, "progs": [[first], [second]], "world": 1000 + k,
            "preempt": [["local", 0, j + 1]], "choices": [0] * 8, "instr": False, "first": 0,
            "sweep": True, "sweep_cfg": k}
    if first[0] in LIN_OPS:
        case["lin"] = True
    return case


def _gen_sweep(w, s):
    curve = w.choice(["toy", "toy", "toy", "secp112r1", "nist256p"])
    order = _order(curve)
    first = w.choice([["mulG", w.randrange(2, order)], ["scaleP"], ["muladd", w.randrange(1, order),
                                                                    w.randrange(1, order)], ["affP"]])
    second = w.choice([["mulG", w.randrange(2, order)], ["xyP"], ["muladd", w.randrange(1, order),
                                                                  w.randrange(1, order)], ["eqPQ"], ["affP"],
                       ["pickleG"]])
    return {"part": "curve", "curve": curve, "progs": [[first], [second]], "world": w.getrandbits(32),
            "preempt": [["localfrac", 0, s.random()]], "choices": [0] * 8, "instr": False, "first": 0,
            "sweep": True}


# =========================================================================
# lock part
# =========================================================================
def _run_lock(case, out):
    _configure("lock")
    nthreads = len(case["threads"])

    def build(preempt, choices):
        s = sched.Sched(preempt=preempt, choices=choices, max_steps=40000)
        s.wall_cap = 20.0
        ns = _fresh_rwlock_module(s)
        lock = ns["RWLock"]()
        lock_b = ns["RWLock"]() if case.get("two_locks") else None
        names = ["read_switch.mutex", "write_switch.mutex", "no_readers", "no_writers", "readers_queue"]
        if len(s.locks) == 5:
            for lk, nm in zip(s.locks, names):
                lk.name = nm

        def body(spec, t):
            def fn():
                for rd in spec["rounds"]:
                    t.phase = "acquiring"
                    if spec["role"] == "r":
                        lock.reader_acquire()
                    else:
                        lock.writer_acquire()
                    t.phase = "inside"
                    s.yield_()
                    if lock_b is not None and spec.get("nest"):
                        lock_b.reader_acquire()
                        s.yield_()
                        lock_b.reader_release()
                    for _ in range(rd["y"]):
                        s.yield_()
                    if rd["sleep"]:
                        s.sleep(rd["sleep"])
                    t.phase = "releasing"
                    if spec["role"] == "r":
                        lock.reader_release()
                    else:
                        lock.writer_release()
                    t.phase = "idle"
                t.phase = "finished"
            return fn

        for spec in case["threads"]:
            t = s.spawn(None, role=spec["role"])
            t.fn = body(spec, t)
        return s

    states = set()
    flags = {}

    def on_step(s, me, kind):
        ths = s.threads
        inside = [t for t in ths if t.phase == "inside"]
        nwin = sum(1 for t in inside if t.role == "w")
        if nwin and len(inside) > 1:
            return ("C20.lock.writer-not-exclusive", "writer-with-%s" % (
                "writer" if nwin > 1 else "reader"),
                "threads %s are inside together: %s" % (
                    [t.tid for t in inside], [(t.tid, t.role, t.phase, t.state) for t in ths]))
        if len(inside) >= 2:
            flags["two-readers-inside"] = 1
        parked = [t for t in ths if t.state == "blocked"]
        if parked:
            writers_about = any(t.role == "w" and t.phase in ("acquiring", "inside", "releasing") for t in ths)
            if inside and not nwin and any(t.role == "w" and t.state == "blocked" for t in ths):
                flags["writer-parked-while-readers-inside"] = 1
            if writers_about and any(t.role == "r" for t in parked):
                flags["reader-parked-behind-writer"] = 1
            if not writers_about:
                in_transit = [t for t in ths if t.phase in ("acquiring", "releasing") and t.state != "blocked"]
                if not in_transit and me.phase not in ("acquiring", "releasing"):
                    rp = [t for t in parked if t.role == "r" and t.phase == "acquiring"]
                    if rp:
                        return ("C20.lock.reader-kept-waiting", "reader-parked-with-only-readers-inside",
                                "reader %d is parked on %s although no writer is inside or waiting and nobody "
                                "is in transit: %s" % (rp[0].tid, rp[0].blocked_on.name,
                                                       [(t.tid, t.role, t.phase, t.state) for t in ths]))
        states.add(hash((tuple(lk.locked_ for lk in s.locks),
                         tuple((t.phase, t.state) for t in ths))))
        return None

    # dry run without pre-emption: step horizon for "frac" positions and the solo step budget
    dry = build([], [])
    dry.run(first=0)
    horizon = max(dry.step, 1)
    pre = [_resolve_pre(p, horizon, dry) for p in case["preempt"]]
    s = build([p for p in pre if isinstance(p, int)], case["choices"])
    s.on_step = on_step
    s.max_steps = 8 * horizon + 200
    s.run(first=case.get("first"))
    out.sim_time = s.now
    for k in flags:
        out.probes[k] += 1
    if s.clock_jumps:
        out.probes["clock-jump"] += 1
        out.fired["stalled-holder"] += s.clock_jumps
    npre = sum(1 for d in s.decisions if d[3] == "preempt")
    out.fired["preempt"] += npre
    out.fired["forced-switch"] += sum(1 for d in s.decisions if d[3] in ("block", "sleep"))
    out.nontrivial = any(d[3] in ("preempt", "block", "sleep") for d in s.decisions)
    out.log.append(("lock", tuple(s.lock_ops), s.aborted))
    if case.get("two_locks"):
        out.probes["two-lock-objects"] += 1
    out.sets["lock_states"] = states
    out.sets["lock_interleavings"] = {hash(tuple(s.lock_ops))}
    if case.get("lock_sweep") is not None:
        k = case["lock_sweep"]
        out.probes["lock-sweep-run"] += 1
        out.sets["locksweep%d_steps" % k] = {dry.step}
        out.sets["locksweep%d_interleavings" % k] = {hash(tuple(s.lock_ops))}
        out.sets["locksweep%d_states" % k] = set(states)
    narrow = dict(case, preempt=[["abs", p] for p in sorted(set(pre))])
    if s.aborted == "invariant":
        c, i, d = s.violation
        out.fail(c, i, d + " | lock ops: %s" % (s.lock_ops[-12:],), narrow)
    elif s.aborted == "deadlock":
        out.fail("C20.lock.deadlock", "deadlock",
                 "no thread can run: %s ; lock ops tail %s" % (
                     [(t.tid, t.role, t.phase, t.state, getattr(t.blocked_on, "name", None))
                      for t in s.threads], s.lock_ops[-12:]), narrow)
    elif s.aborted == "hang":
        out.fail("C20.lock.deadlock", "hang-outside-simulator",
                 "threads stopped making progress on a primitive the simulator does not own: %s" % (
                     [(t.tid, t.role, t.phase, t.state) for t in s.threads],), narrow)
    elif s.aborted == "step-cap":
        out.fail("C20.lock.no-progress", "step-cap",
                 "threads did not finish within 8x the solo step count (%d steps)" % s.step, narrow)
    for t in s.threads:
        if t.exc is not None:
            out.fail("C20.lock.thread-raised", type(t.exc).__name__,
                     "thread %d (%s) raised %r ; lock ops tail %s" % (t.tid, t.role, t.exc, s.lock_ops[-12:]),
                     narrow)
    if not s.aborted and any(lk.locked_ for lk in s.locks):
        out.fail("C20.lock.left-locked", "mutex-left-locked",
                 "after all threads finished a mutex is still held: %s" % (
                     [lk.name for lk in s.locks if lk.locked_],), narrow)
    return out


def _resolve_pre(p, horizon, dry):
    if p[0] == "abs":
        return int(p[1])
    if p[0] == "frac":
        return 1 + int(p[1] * horizon)
    if p[0] == "local":
        return ("local", int(p[1]), int(p[2]))
    if p[0] == "localfrac":
        n = max(1, dry.threads[int(p[1])].steps)
        return ("local", int(p[1]), 1 + int(p[2] * n))
    if p[0] == "shallow":
        cand = [st for tid, st in dry.shallow_steps if tid == int(p[1])]
        if not cand:
            return -1
        return ("local", int(p[1]), cand[int(p[2] * len(cand)) % len(cand)])
    raise ValueError(p)


# =========================================================================
# curve part
# =========================================================================
class World:
    pass


def _make_world(case):
    import random
    r = random.Random(case["world"])
    w = World()
    name = case["curve"]
    w.edwards = name == "ed25519"
    if w.edwards:
        c = _curves.Ed25519
        cf = c.curve
        p = int(cf.p())
        gx, gy, n = int(c.generator.x()), int(c.generator.y()), int(c.order)
        w.curve_obj = c
        w.p, w.a, w.b, w.n, w.g = p, None, None, n, (gx, gy)
        w.cf = cf
        mk = lambda x, y, z, gen=False: _ec.PointEdwards(cf, x * z % p, y * z % p, z, x * y % p * z % p, n, generator=gen)
        w.G = mk(gx, gy, 1, True)
        # affine coordinates of the shared points: computed with a throw-away generator, sequentially
        tmp = mk(gx, gy, 1)
        kp = r.randrange(2, n - 1)
        kq = r.randrange(2, n - 1)
        while kq == kp:
            kq = r.randrange(2, n - 1)
        w.kp, w.kq = kp, kq
        pa = tmp * kp
        qa = tmp * kq
        w.Paff = (int(pa.x()), int(pa.y()))
        w.Q2aff = (int(qa.x()), int(qa.y()))
        w.P = mk(w.Paff[0], w.Paff[1], r.randrange(2, p))
        w.Q = mk(w.Paff[0], w.Paff[1], r.randrange(2, p))
        w.Q2 = mk(w.Q2aff[0], w.Q2aff[1], r.randrange(2, p))
        w.seed = case["world"]
        return w
    if name == "toy":
        p, a, b = 17, 2, 2
        gx, gy, n = 5, 1, 19
        cf = _ec.CurveFp(p, a, b)
        w.curve_obj = None
    else:
        c = getattr(_curves, CURVES[name])
        cf = c.curve
        p, a, b = int(cf.p()), int(cf.a()), int(cf.b())
        gx, gy, n = int(c.generator.x()), int(c.generator.y()), int(c.order)
        w.curve_obj = c
    w.p, w.a, w.b, w.n, w.g = p, a, b, n, (gx, gy)
    w.cf = cf
    w.G = _ec.PointJacobi(cf, gx, gy, 1, n, generator=True)
    kp = r.randrange(2, n - 1)
    w.kp = kp
    w.Paff = refp256.mul(kp, (gx, gy), p, a)
    z = r.randrange(2, p)
    w.P = _ec.PointJacobi(cf, w.Paff[0] * z * z % p, w.Paff[1] * z * z * z % p, z, n)
    z2 = r.randrange(2, p)
    w.Q = _ec.PointJacobi(cf, w.Paff[0] * z2 * z2 % p, w.Paff[1] * z2 * z2 * z2 % p, z2, n)
    kq = r.randrange(2, n - 1)
    while (kq + kp) % n == 0 or kq == kp:
        kq = r.randrange(2, n - 1)
    w.kq = kq
    w.Q2aff = refp256.mul(kq, (gx, gy), p, a)
    z3 = r.randrange(2, p)
    w.Q2 = _ec.PointJacobi(cf, w.Q2aff[0] * z3 * z3 % p, w.Q2aff[1] * z3 * z3 * z3 % p, z3, n)
    w.seed = case["world"]
    if name == "nist256p":
        # library-level programs use the module-level curve object.  Keys are made while a *throw-away*
        # generator is installed (making a key multiplies the generator and would build the table), then
        # their generator references are pointed at the fresh shared generator, whose table is still
        # empty: the first use - and the lazy table construction - happens inside the run.
        w.saved_gen = c.generator
        c.generator = _ec.PointJacobi(cf, gx, gy, 1, n, generator=True)
        d = r.randrange(2, n - 1)
        w.sk = _keys.SigningKey.from_secret_exponent(d, curve=c)
        w.vk = w.sk.verifying_key
        w.recip_d = r.randrange(2, n - 1)
        w.recip = env.REAL_PRIV.create_from_der_fmt(refp256.sec1_private_der(w.recip_d))
        # a verifying key that wraps the shared Jacobian point (Z != 1): verification rescales it in place
        w.skP = _keys.SigningKey.from_secret_exponent(kp, curve=c)
        w.sigP = w.skP.sign_deterministic(b"message for P")
        w.vkP = _keys.VerifyingKey.from_public_point(w.P, c, validate_point=False)
        w.vkP.pubkey.generator = w.G
        # a verifying key parsed from DER: its point carries no order
        w.skD = _keys.SigningKey.from_secret_exponent(r.randrange(2, n - 1), curve=c)
        w.sigD = w.skD.sign_deterministic(b"message for D")
        w.vkD = _keys.VerifyingKey.from_der(w.skD.verifying_key.to_der())
        w.vkD.pubkey.generator = w.G
        # three peers for key agreement through ONE shared private-key object (w.recip)
        w.peer_d = [r.randrange(2, n - 1) for _ in range(3)]
        w.peers = [env.REAL_PRIV.create_from_der_fmt(refp256.sec1_private_der(d_)).public_key for d_ in w.peer_d]
        for key in (w.sk, w.recip.private_key):
            key.verifying_key.pubkey.generator = w.G
            key.privkey.public_key.generator = w.G
        c.generator = w.G
    return w


def _drop_world(w):
    if getattr(w, "saved_gen", None) is not None:
        w.curve_obj.generator = w.saved_gen


def _pt(pt):
    if pt is _ec.INFINITY or pt == _ec.INFINITY:
        return None
    return (int(pt.x()), int(pt.y()))


def _exec(w, op, tctx):
    k = op[0]
    if k == "mulG":
        return _pt(w.G * op[1])
    if k == "mulP":
        return _pt(w.P * op[1])
    if k == "muladd":
        return _pt(w.G.mul_add(op[1], w.P, op[2]))
    if k == "scaleP":
        w.P.scale()
        return (int(w.P.x()), int(w.P.y()))
    if k == "affP":
        q = w.P.to_affine()
        return (int(q.x()), int(q.y()))
    if k == "xyP":
        return (int(w.P.x()), int(w.P.y()))
    if k == "eqPQ":
        return (bool(w.P == w.Q), bool(w.P == w.Q2))
    if k == "addPQ":
        return _pt(w.P + w.Q2)
    if k == "dblP":
        return _pt(w.P.double())
    if k == "pickleG":
        g2 = pickle.loads(pickle.dumps(w.G))
        return _pt(g2 * 3)
    if k == "keygen":
        sk = _keys.SigningKey.generate(curve=w.curve_obj, entropy=tctx["entropy"])
        return sk.verifying_key.to_string().hex()
    if k == "signverify":
        msg = b"msg-%d" % op[1]
        sig = w.sk.sign_deterministic(msg)
        return (sig.hex(), bool(w.vk.verify(sig, msg)))
    if k == "verifyP":
        ok = bool(w.vkP.verify(w.sigP, b"message for P"))
        return (ok, int(w.P.x()), int(w.P.y()))
    if k == "dhshared":
        return w.recip.compute_dh_secret(w.peers[op[1]]).hex()
    if k == "precomputeP":
        # switches the shared verifying key (its point knows its order) to table mode: a new point object is
        # published with one assignment
        w.vkP.precompute(lazy=op[1])
        return "done"
    if k == "precomputeD":
        try:
            return repr(w.vkD.precompute(lazy=op[1]))
        except Exception as e:
            return "raised " + type(e).__name__
    if k == "verifyD":
        try:
            return repr(bool(w.vkD.verify(w.sigD, b"message for D")))
        except Exception as e:
            return "raised " + type(e).__name__
    if k == "ecies":
        env.install_rng(lambda n, site: tctx["entropy"](n))
        enc = env.bec2file.EccEncryptor(op[1], w.recip.public_key)
        dec = env.bec2file.EccDecryptor(op[1], w.recip)
        key = tctx["entropy"](16)
        blob = enc.encrypt(key)
        return (dec.decrypt(blob).hex(), key.hex())
    if k == "ecdh":
        e = _ecdh.ECDH(curve=w.curve_obj)
        e.load_private_key(w.sk)
        e.load_received_public_key(w.recip.public_key.public_key)
        return e.generate_sharedsecret_bytes().hex()
    raise ValueError(op)


def _ref(w, op):
    """independent expectation where defined, else the marker 'n/a'"""
    k = op[0]
    if getattr(w, "edwards", False):
        # no independent Edwards arithmetic here: only what is known by construction
        return w.Paff if k in ("scaleP", "xyP") else ((True, False) if k == "eqPQ" else "n/a")
    g, p, a, n = w.g, w.p, w.a, w.n
    if k == "mulG":
        return refp256.mul(op[1] % n, g, p, a)
    if k == "mulP":
        return refp256.mul(op[1] % n, w.Paff, p, a)
    if k == "muladd":
        return refp256.add(refp256.mul(op[1] % n, g, p, a), refp256.mul(op[2] % n, w.Paff, p, a), p, a)
    if k in ("scaleP", "affP", "xyP"):
        return w.Paff
    if k == "verifyP":
        return (True, w.Paff[0], w.Paff[1])
    if k == "dhshared":
        return refp256.ecdh_x(w.recip_d, refp256.mul(w.peer_d[op[1]], refp256.G)).hex()
    if k == "eqPQ":
        return (True, False)
    if k == "addPQ":
        return refp256.add(w.Paff, w.Q2aff, p, a)
    if k == "dblP":
        return refp256.add(w.Paff, w.Paff, p, a)
    if k == "pickleG":
        return refp256.mul(3, g, p, a)
    return "n/a"


def _entropy(seed, tid):
    import hashlib
    state = {"n": 0}

    def f(nbytes):
        outb = b""
        while len(outb) < nbytes:
            outb += hashlib.sha256(b"%d|%d|%d" % (seed, tid, state["n"])).digest()
            state["n"] += 1
        return outb[:nbytes]
    return f


def _table(G):
    t = getattr(G, "_PointJacobi__precompute", None)
    if t is None:
        t = getattr(G, "_PointEdwards__precompute", None)
    return None if t is None else [tuple(int(v) for v in e) for e in t]


def _run_curve(case, out):
    mode = "curve-instr" if case.get("instr") else "curve"
    _configure(mode)
    progs = case["progs"]
    marks = {}

    def build(world, preempt, choices, watch):
        s = sched.Sched(preempt=[p for p in preempt if isinstance(p, int) and p > 0], choices=choices,
                        max_steps=5_000_000)
        s.preempt_local = {(p[1], p[2]) for p in preempt if not isinstance(p, int)}

        def body(tid, prog):
            def fn():
                tctx = {"entropy": _entropy(world.seed, tid)}
                res = []
                for op in prog:
                    res.append(_exec(world, op, tctx))
                return res
            return fn
        for tid, prog in enumerate(progs):
            s.spawn(body(tid, prog))
        return s

    try:
        env.restore_registry()
        # sequential reference on a fresh world (also the dry run that measures step counts)
        w0 = _make_world(case)
        try:
            from sim import conc as _conc
            env.reset_globals()      # lazily built module-level state is empty again: the threads are its first users
            dry = build(w0, [], [], False)
            dry.shallow_files = _conc.shallow_files()
            dry.run(first=0)
        finally:
            _drop_world(w0)
        seq = [t.result for t in dry.threads]
        seq_exc = [t.exc for t in dry.threads]
        if any(e is not None for e in seq_exc):
            # the sequential execution itself fails: not a schedule matter (C17); no verdict here
            out.ev("sequential-raised", [type(e).__name__ for e in seq_exc if e is not None])
            return out
        allowed = None
        if case.get("lin"):
            # the other sequential order, on another fresh world
            w0b = _make_world(case)
            try:
                env.reset_globals()
                dry_b = build(w0b, [], [], False)
                dry_b.run(first=1)
            finally:
                _drop_world(w0b)
            if any(t.exc is not None for t in dry_b.threads):
                out.ev("sequential-raised-b")
                return out
            allowed = [seq, [t.result for t in dry_b.threads]]
            out.probes["lin-two-sequential-orders"] += 1
            if allowed[0] != allowed[1]:
                out.probes["lin-orders-differ"] += 1
        table0 = _table(w0.G)
        horizon = max(dry.step, 1)
        pre = [_resolve_pre(p, horizon, dry) for p in case["preempt"]]
        w1 = _make_world(case)
        try:
            env.reset_globals()
            s = build(w1, pre, case["choices"], True)
            s.run(first=case.get("first"))
        finally:
            _drop_world(w1)
        npre = sum(1 for d in s.decisions if d[3] == "preempt")
        out.fired["preempt"] += npre
        out.nontrivial = npre > 0
        for stack in s.preempt_stacks:
            if "_maybe_precompute" in stack:
                out.probes["preempt-inside-precompute"] += 1
            if "scale" in stack:
                out.probes["preempt-inside-scale"] += 1
            if "mul_add" in stack:
                out.probes["preempt-inside-mul_add"] += 1
        if len(progs) >= 3:
            out.probes["three-threads"] += 1
        if case["curve"] == "ed25519":
            out.probes["edwards-point-class"] += 1
        if case.get("sweep"):
            out.probes["sweep-run"] += 1
        if case.get("sweep_cfg") is not None:
            k = case["sweep_cfg"]
            out.sets["sweep%02d_steps_of_thread0" % k] = {dry.threads[0].steps}
            if npre:
                out.sets["sweep%02d_points_preempted" % k] = {p[2] for p in pre if not isinstance(p, int)}
        if case.get("instr"):
            out.probes["instr-mode"] += 1
        if table0:
            out.probes["table-built-in-run"] += 1
        res = [t.result for t in s.threads]
        out.log.append(("curve", case["curve"], tuple(s.decisions), repr(res), s.aborted))
        out.sets["curve_decision_seqs"] = {hash((case["curve"], repr(progs), tuple(s.decisions)))}
        narrow = dict(case, preempt=[["abs", p] if isinstance(p, int) else list(p) for p in pre])
        if s.aborted:
            out.fail("C20.curve.aborted", s.aborted, "run aborted: %s at step %d" % (s.aborted, s.step), narrow)
            return out
        if allowed is not None:
            if any(t.exc is not None for t in s.threads):
                out.fail("C20.curve.thread-raised", "lin", "a thread raised outside the recorded operations: %r"
                         % [t.exc for t in s.threads], narrow)
            elif res not in allowed:
                out.fail("C20.curve.not-a-sequential-outcome", "+".join(op[0] for pr in progs for op in pr),
                         "threads running %s returned %r under schedule %s; run one after the other (either order) "
                         "they return %r" % (progs, res, s.decisions, allowed), narrow)
            return out
        for tid, t in enumerate(s.threads):
            if t.exc is not None:
                out.fail("C20.curve.thread-raised", type(t.exc).__name__,
                         "thread %d running %s raised %r under schedule %s (sequential execution does not)"
                         % (tid, progs[tid], t.exc, s.decisions), narrow)
                continue
            if t.result != seq[tid]:
                bad = [j for j, (x, y) in enumerate(zip(t.result, seq[tid])) if x != y]
                op = progs[tid][bad[0]] if bad else "?"
                out.fail("C20.curve.result-differs", op[0] if bad else "length",
                         "thread %d op %s returned %r concurrently but %r sequentially; schedule %s"
                         % (tid, op, t.result[bad[0]] if bad else t.result, seq[tid][bad[0]] if bad else seq[tid],
                            s.decisions), narrow)
            for j, op in enumerate(progs[tid]):
                exp = _ref(w1, op)
                if exp != "n/a" and t.result[j] != exp and seq[tid][j] == exp:
                    out.fail("C20.curve.result-wrong", op[0],
                             "thread %d op %s returned %r, independent arithmetic says %r" % (
                                 tid, op, t.result[j], exp), narrow)
        # shared objects denote the same points afterwards
        t1 = _table(w1.G)
        if table0 is not None and t1 is not None and t1 != table0:
            out.fail("C20.curve.table-differs", "table",
                     "generator table after the concurrent run (%d entries) differs from the sequential one (%d)"
                     % (len(t1), len(table0)), narrow)
        try:
            pa = (int(w1.P.x()), int(w1.P.y()))
        except Exception as e:  # noqa
            pa = repr(e)
        if pa != w1.Paff:
            out.fail("C20.curve.shared-point-corrupt", "P", "shared point denotes %r afterwards, expected %r"
                     % (pa, w1.Paff), narrow)
    finally:
        env.restore_registry()
    return out


def evidence_extra(total):
    """completeness of the systematic sweeps: every own step of thread 0 was a pre-emption point"""
    rep = {}
    for k, cfg in enumerate(SWEEPS):
        pts = total["sets"].get("sweep%02d_points_preempted" % k)
        n = total["sets"].get("sweep%02d_steps_of_thread0" % k)
        if pts and n and len(n) == 1:
            steps = next(iter(n))
            # the last own step cannot be pre-empted usefully only if the thread finished; count 1..steps
            rep["sweep %d %s %s|%s" % (k, cfg[0], cfg[1], cfg[2])] = {
                "steps_of_thread0": steps, "distinct_points_preempted": len(pts),
                "complete": all(j in pts for j in range(1, steps))}
    lrep = {}
    for k, roles in enumerate(LOCK_SWEEPS):
        n = total["sets"].get("locksweep%d_steps" % k)
        if n:
            lrep["%d %s" % (k, "+".join(roles))] = {
                "steps_of_a_run_without_pre-emption": sorted(n),
                "covered_by_enumeration_up_to_step": LOCK_NMAX,
                "schedule_family": "all schedules with 1 or 2 pre-emptions x 9 choice patterns",
                "distinct_lock_operation_interleavings": len(total["sets"].get("locksweep%d_interleavings" % k, ())),
                "distinct_abstract_states": len(total["sets"].get("locksweep%d_states" % k, ()))}
    res = {}
    if rep:
        res["systematic_sweeps"] = rep
    if lrep:
        res["systematic_lock_sweeps"] = lrep
    return res


def run(case):
    out = Outcome()
    if case["part"] == "lock":
        return _run_lock(case, out)
    return _run_curve(case, out)


def shrink(case):
    pre = case["preempt"]
    for i in range(len(pre)):
        yield dict(case, preempt=pre[:i] + pre[i + 1:])
    if case["part"] == "lock":
        th = case["threads"]
        for i in range(len(th)):
            if len(th) > 1:
                yield dict(case, threads=th[:i] + th[i + 1:])
        for i, t in enumerate(th):
            if len(t["rounds"]) > 1:
                yield dict(case, threads=th[:i] + [dict(t, rounds=t["rounds"][:-1])] + th[i + 1:])
            for j, rd in enumerate(t["rounds"]):
                if rd["y"] or rd["sleep"]:
                    nr = t["rounds"][:j] + [{"y": 0, "sleep": None}] + t["rounds"][j + 1:]
                    yield dict(case, threads=th[:i] + [dict(t, rounds=nr)] + th[i + 1:])
    else:
        pg = case["progs"]
        for i in range(len(pg)):
            if len(pg) > 2:
                yield dict(case, progs=pg[:i] + pg[i + 1:])
            for j in range(len(pg[i])):
                if len(pg[i]) > 1:
                    yield dict(case, progs=pg[:i] + [pg[i][:j] + pg[i][j + 1:]] + pg[i + 1:])
