"""C04 — damaged or truncated files are never silently accepted as different content.
The fault-injecting configuration of the E-store / E-prov simulation: an authentic file
is written by the real writer onto the simulated medium, exactly one fault is applied
(crash point of the writer, torn/lost tail, bit rot, appended data, wrong key bit), the
process restarts and the real reader reads with MAC checking on."""
from sim import env, files, prov, refdir
from sim import gen as G
from sim.core import Outcome
from sim.simfs import SimFS, SimCrash

ID = "C04"
LEVEL = "fault_enumeration"
ENGINE = "E-store"
TECHNIQUE = "deterministic simulation with fault injection: real writer on a simulated medium, one storage fault per evaluation (crash point / torn tail / bit rot / append / key bit), restart, real reader; thorough tier enumerates every cut point and every byte position x class per sampled file; plus a concurrent-readers arm under the deterministic thread scheduler"
DESIGN_REF = "DESIGN.md section 6, C04"
LEVEL_TEXT = ("per sampled authentic file the fault space named by the property is enumerated (thorough: all text and "
              "binary prefixes, all positions x 11 replacement classes, all suffixes, all 128 key bits; quick: a seeded "
              "sample that always contains the last cut points and all structural fields); files themselves are sampled")
LEVEL_NOTE = ("oracle: raise, or content equal to the original (comments + components; session key when at least one "
              "component binds it); auth-block list not compared; trusts RefDir only for naming regions")
RUNS = {"quick": 1400, "thorough": 240}
OPTIMIZED_PASS = {"quick": 100, "thorough": 16}   # extra runs under PYTHONOPTIMIZE=1 (assert statements removed)
RUN_WALL_CAP = 1800   # a thorough run enumerates every fault of one file
CHUNK_WALL_CAP = {"quick": 900, "thorough": 7200}
RULE = ("per run one authentic BF3/BEC2 file (seeded shapes of C01/C02) and a list of single faults, "
        "each applied alone: writer crash at write call k keeping n bytes (simulated, real writer), "
        "every/sampled text prefix, binary prefix, byte replacement (8 bit flips, 00, FF, +1) at "
        "structural and sampled positions, appended suffixes, stale tail of an older longer file (lost truncate), "
        "512-byte sectors zeroed or holding the older file's data, session-key bit flips; thorough "
        "enumerates ALL cut points and ALL positions x classes per file. evaluations = faults "
        "applied and read back; a run is non-trivial when at least one fault changed the stored "
        "bytes; distinct = distinct event-log digests (file shape x fault outcomes)")
REAL = ["bec2format.bf3file / bec2file (writer and reader)", "bec2format.bytes_reader",
        "register_crypto_plugin (AES adapter, ECC proxies)", "pyaes", "ecdsa (ECC blocks)"]
STUBS = ["medium: SimFS (crash points, torn writes)", "RNG: SimRng behind register_random_bytes / "
         "os.urandom shims", "RefDir (locates fields; never judges)"]
PROBES = ["damage-in-entry-beyond-255", "runs-with-assertions-disabled", "key-buffer-changed-in-place", "payload-64k-or-more", "concurrent-readers", "cut-drops-only-zero-bytes", "cut-inside-hex-pair", "cut-splits-crlf", "cut-inside-dir-size",
          "cut-in-comment-header", "cut-after-signature", "damage-accepted-equal",
          "crash-simulated-equals-prefix", "rep-in-length-field", "bec2-header-damage",
          "keybit-on-empty-file"]
ASSUMPTIONS = ["'content' = comments, components (tags, payload, declared length, encryption flag) and, "
               "for BEC2, the session key; the list of auth blocks is outside every MAC and not compared",
               "any exception counts as 'reports an error' (its type is C14's subject)"]

CLASSES = ["b0", "b1", "b2", "b3", "b4", "b5", "b6", "b7", "00", "FF", "+1"]
SUFFIXES = ["00", "0", "\n", ",", "FF", "00" * 16, "\r\n", "00\n", " "]


def gen(st, tier):
    w = st["workload"]
    f = st["faults"]
    if w.random() < 0.04:
        # concurrent readers: one reads a damaged file with MAC checking on while another reads with other settings
        from sim import conc
        pre, ch = conc.sched_spec(st["schedule"])
        spec = files.file_spec(w, kind="bf3", p_enc=0.3, max_len=80, allow_many=False)
        if not spec["obj"]["components"]:
            spec["obj"]["components"].append(G.component_spec(w, max_len=60))
        spec.update(conc=True, preempt=pre, choices=ch,
                    victim=f.choice([["rep", f.random(), f.choice(CLASSES)], ["keybit", f.randrange(128)]]),
                    other=f.choice(["nocheck", "nocheck", "otherkey-nocheck", "plain"]))
        return spec
    if w.random() < 0.004:
        # a firmware-sized payload (>= 64 KiB): reads cost about a second, so only a handful of faults
        big = {"desc": [[0xC3, "02"]], "blob": {"len": w.randint(65536, 66600), "fill": "rand", "tail0": 0,
                                                "s": w.getrandbits(32)}, "alen": None, "enc": False}
        spec = {"kind": "bf3", "obj": {"comments": [], "components": [big]}, "via": "stream", "rng": 1,
                "key": G.session_key_spec(w), "bigfile": True}
        spec["faults"] = [["rep", ["frac", 0.05 + 0.9 * f.random()], f.choice(CLASSES)] for _ in range(6)] + [
            ["cut_bin", ["end", 0]], ["cut_bin", ["frac", f.random()]], ["cut_text", ["frac", f.random()]]]
        # bytes around power-of-two offsets of the payload (buffer / window boundaries of a streaming cipher)
        for off in f.sample([4095, 4096, 8176, 8184, 8191, 8192, 16368, 16383, 16384, 32767, 32768, 65535], 7):
            spec["faults"].append(["rep", ["payload", off], f.choice(CLASSES)])
        return spec
    spec = files.file_spec(w, max_len=200 if tier == "quick" else 120, p_enc=0.25, allow_many=(tier == "quick"))
    if w.random() < 0.03 and spec["obj"]["components"]:
        # an empty component before other ones.  (The pinned writer emits it but the pinned reader rejects such a
        # file, C01 excludes them: the run then ends as "baseline-unreadable"; a tree that can read them is judged.)
        spec["obj"]["components"].insert(w.randrange(len(spec["obj"]["components"])),
                                         {"desc": [], "blob": {"len": 0, "fill": "zero", "tail0": 0, "s": 0},
                                          "alen": None, "enc": False})
    if tier == "thorough":
        # complete enumeration per file: keep the file small enough for it (comments are not part of the binary)
        spec["obj"]["comments"] = [c for c in spec["obj"]["comments"] if len(c[1]) < 200]
        for c in spec["obj"]["components"]:
            b = c["blob"]
            if b["len"] > 300:
                # the occasional 4 KiB content makes one complete enumeration take ten minutes: not here
                n = 260 + b["len"] % 40
                if c.get("alen") is not None:
                    c["alen"] = max(1, n - (b["len"] - c["alen"]))
                b["len"] = n
                b["tail0"] = min(b["tail0"], n)
        spec["faults"] = "all"
        return spec
    faults = []
    for j in range(10):
        faults.append(["cut_text", ["end", j]])
    for j in range(6):
        faults.append(["cut_bin", ["end", j]])
    for _ in range(6):
        faults.append(["cut_text", ["frac", f.random()]])
    for _ in range(3):
        faults.append(["cut_bin", ["frac", f.random()]])
    for _ in range(4):
        if f.random() < 0.5:
            faults.append(["crash", ["end", f.choice([0, 1, 2, 3, 5, 40, 81])]])
        else:
            faults.append(["crash", ["frac", f.random()]])
    for _ in range(16):
        faults.append(["rep", ["field", f.randrange(10000)], f.choice(CLASSES)])
    for _ in range(8):
        faults.append(["rep", ["frac", f.random()], f.choice(CLASSES)])
    # fields of the last directory entries (entry numbers beyond 255 in packages with many components)
    for _ in range(14 if len(spec["obj"]["components"]) > 200 else 2):
        faults.append(["rep", ["field-lastdir", f.randrange(10000)], f.choice(CLASSES)])
    for j in range(3):
        faults.append(["rep", ["end", j], f.choice(CLASSES)])
    for _ in range(3):
        faults.append(["app", f.choice(SUFFIXES)])
    faults.append(["stale"])
    for _ in range(3):
        faults.append(["sector", ["frac", f.random()], f.choice(["zero", "stale"])])
    faults.append(["sector", ["end", 0], f.choice(["zero", "stale"])])
    if spec["kind"] == "bf3":
        for _ in range(3):
            faults.append(["keybit", f.randrange(128), f.choice(["copy", "inplace"])])
    spec["faults"] = faults
    return spec


def _resolve(pos, length):
    how, v = pos
    if length <= 0:
        return 0
    if how == "end":
        return max(0, length - 1 - int(v))
    if how == "frac":
        return min(length - 1, int(v * length))
    return min(length - 1, int(v))


def _apply_class(byte, cls):
    if cls[0] == "b":
        return byte ^ (1 << int(cls[1]))
    if cls == "00":
        return 0
    if cls == "FF":
        return 0xFF
    return (byte + 1) & 0xFF


def _all_faults(text_len, bin_len, kind):
    for n in range(text_len):
        yield ["cut_text", ["abs", n]]
    for n in range(bin_len):
        yield ["cut_bin", ["abs", n]]
    for p in range(bin_len):
        for c in CLASSES:
            yield ["rep", ["abs", p], c]
    for s in SUFFIXES:
        yield ["app", s]
    yield ["stale"]
    for k in range((text_len + 511) // 512):
        yield ["sector", ["abs", k * 512], "zero"]
        yield ["sector", ["abs", k * 512], "stale"]
    if kind == "bf3":
        for i in range(128):
            yield ["keybit", i, "copy" if i % 2 else "inplace"]


def _run_conc(case):
    from sim import conc
    out = Outcome()
    info = {}

    def make_bodies(s):
        fs = SimFS()
        env.use_fs(fs)
        w = files.write_file(dict(case, via="stream"), fs, env, "a.bf3")
        orig = w.durable
        head, binary = files.binary_of(orig)
        regions, inf = refdir.walk(binary)
        v = case["victim"]
        key0 = w.key
        if v[0] == "rep":
            pays = [(a, n) for a, n in inf["payloads"] if n] or [(5, len(binary) - 5)]
            a, n = pays[int(v[1] * len(pays)) % len(pays)]
            p = a + int(v[1] * n) % max(n, 1)
            nb = _apply_class(binary[p], v[2])
            if nb == binary[p]:
                nb ^= 1
            fs.files["damaged.bf3"] = files.render(head, binary[:p] + bytes([nb]) + binary[p + 1:], False)
        else:
            kb = bytearray(w.key)
            kb[v[1] // 8] ^= 1 << (v[1] % 8)
            key0 = bytes(kb)
            fs.files["damaged.bf3"] = orig
        info["w"] = w
        okey = w.key if case["other"] != "otherkey-nocheck" else bytes(16 * [0x5A])

        def victim():
            try:
                got = env.bf3file.Bf3File.read_file("damaged.bf3", True, key0)
            except Exception as e:
                return ("raised", type(e).__name__)
            return ("returned", files.compare_read("bf3", w, got))

        def other():
            got = env.bf3file.Bf3File.read_file("a.bf3", case["other"] == "plain", okey)
            return ("returned", None if case["other"] == "otherkey-nocheck" else files.compare_read("bf3", w, got))
        return [victim, other]
    try:
        dry, cc, pre = conc.run_conc(make_bodies, case["preempt"], case["choices"], first=0)
    finally:
        env.restore_registry()
    npre = sum(1 for d in cc.decisions if d[3] == "preempt")
    out.fired["preempt"] += npre
    out.fired["concurrent-" + case["victim"][0]] += 1
    out.nontrivial = npre > 0
    out.probes["concurrent-readers"] += 1
    out.ev("conc", tuple(cc.decisions), [repr(t.result) for t in cc.threads], cc.aborted)
    narrow = dict(case, preempt=[["abs", p] if isinstance(p, int) else list(p) for p in pre])
    if any(t.exc is not None for t in dry.threads):
        out.ev("sequential-raises")
        return out
    if cc.aborted or any(t.exc is not None for t in cc.threads):
        out.fail("C04.concurrent", "raises", "concurrent readers: %s %s" % (cc.aborted, [t.exc for t in cc.threads]), narrow)
        return out
    r0, r1 = cc.threads[0].result, cc.threads[1].result
    if r0[0] == "returned" and r0[1] is not None and (case["victim"][0] != "keybit" or info["w"].model["components"]):
        out.fail("C04.accepted-different", "concurrent-%s:%s" % (case["victim"][0], r0[1][0]),
                 "while another thread was reading (%s), the read of a damaged file with MAC checking on returned "
                 "different content without error: %s (schedule %s)" % (case["other"], r0[1][1], cc.decisions), narrow)
    if r1[1] is not None:
        out.fail("C04.concurrent", "authentic-read-differs", "the concurrent read of the authentic file differs: %s" % (r1[1],), narrow)
    return out


def run(case):
    if case.get("conc"):
        return _run_conc(case)
    out = Outcome()
    fs = SimFS()
    env.restore_registry()
    env.use_fs(fs)
    kind = case["kind"]
    name = "dev.bec2" if kind == "bec2" else "fw.bf3"
    try:
        try:
            w = files.write_file(case, fs, env, name)
        except SimCrash:
            raise
        except Exception as e:
            out.ev("write-failed", type(e).__name__)
            return out
        orig = w.durable
        crlf = b"\r\n" in orig
        decs = list(w.decryptors.values())
        # the fault-free read must work, otherwise there is nothing to judge here (C01/C02)
        fs.restart()
        kbuf = bytearray(w.key)     # the caller keeps the session key in one buffer object for all reads
        try:
            base = files.read_file(kind, fs, env, name, "path", True, kbuf if kind == "bf3" else w.key, decs)
            if files.compare_read(kind, w, base) is not None:
                raise ValueError("baseline differs")
        except Exception as e:
            out.ev("baseline-unreadable", type(e).__name__)
            out.probes["baseline-unreadable"] += 1
            return out
        head, binary = files.binary_of(orig)
        regions, info = refdir.walk(binary)
        out.ev("file", kind, len(orig), len(binary), len(info["entries"]))
        if any(e["total"] == 0 for e in info["entries"]):
            out.probes["readable-file-with-empty-component"] += 1
        if case.get("bigfile"):
            out.probes["payload-64k-or-more"] += 1
        faults = case["faults"]
        if faults == "all":
            faults = _all_faults(len(orig), len(binary), kind)
        fields = refdir.interesting_positions(regions)
        nev = 0
        old = None
        for ft in faults:
            nev += 1
            fkind = ft[0]
            kbuf[:] = w.key
            key = kbuf if kind == "bf3" else w.key    # one buffer object for every read of this caller
            region = ""
            if fkind in ("cut_text", "crash"):
                n = _resolve(ft[1], len(orig))
                damaged = orig[:n]
                region = "text"
                if fkind == "crash":
                    # really simulate it: rerun the writer on a fresh medium, crash it
                    fs2 = SimFS()
                    env.use_fs(fs2)
                    # find the write call during which byte n is written
                    recs = _records(fs, name, w)
                    acc, kcall = 0, 0
                    for kcall, ln in enumerate(recs):
                        if acc + ln > n:
                            break
                        acc += ln
                    try:
                        files.write_file(case, fs2, env, name, plan={kcall: ("crash", n)})
                        crashed = False
                    except SimCrash:
                        crashed = True
                    finally:
                        env.use_fs(fs)
                    dur = fs2.files.get(name, b"")
                    if crashed and dur == damaged:
                        out.probes["crash-simulated-equals-prefix"] += 1
                    damaged = dur
                    out.fired["crash"] += 1
                else:
                    out.fired["cut_text"] += 1
                _cut_probes(out, orig, n, head, binary, info, regions)
            elif fkind == "cut_bin":
                n = _resolve(ft[1], len(binary))
                damaged = files.render(head, binary[:n], crlf)
                region = refdir.region_of(regions, n)
                out.fired["cut_bin"] += 1
                if n < len(binary) and not any(binary[n:]):
                    out.probes["cut-drops-only-zero-bytes"] += 1
            elif fkind == "rep":
                if ft[1][0] == "payload":
                    pays = [a for a, n_ in info["payloads"] if n_ > ft[1][1]]
                    p = (pays[-1] if pays else 5) + ft[1][1]
                    p = min(p, len(binary) - 1)
                elif ft[1][0] == "field":
                    p = fields[ft[1][1] % len(fields)] if fields else 0
                elif ft[1][0] == "field-lastdir":
                    ent = [(s_, e_) for s_, e_, nm in regions
                           if nm.startswith("entry-") and nm not in ("entry-payload-mac", "entry-mac")]
                    cand = [q for s_, e_ in ent[-72:] for q in range(s_, e_)]
                    if ft[1][1] % 2 == 0:
                        # fields that nothing but the entry's own MAC protects: declared length, tag ids and values
                        soft = [(s_, e_) for s_, e_, nm in regions if nm in ("entry-declared-len", "entry-tags")]
                        cand = [q for s_, e_ in soft[-20:] for q in range(s_, e_)] or cand
                    p = cand[ft[1][1] % len(cand)] if cand else 0
                    if len(ent) > 255 * 6:
                        out.probes["damage-in-entry-beyond-255"] += 1
                else:
                    p = _resolve(ft[1], len(binary))
                nb = _apply_class(binary[p], ft[2])
                if nb == binary[p]:
                    out.ev("fault", fkind, p, ft[2], "noop")
                    continue
                region = refdir.region_of(regions, p)
                damaged = files.render(head, binary[:p] + bytes([nb]) + binary[p + 1:], crlf)
                out.fired["replace"] += 1
                if "len" in region or region == "dir-size":
                    out.probes["rep-in-length-field"] += 1
                if region.startswith("ab-"):
                    out.probes["bec2-header-damage"] += 1
                n = p
            elif fkind == "app":
                damaged = orig + ft[1].encode()
                region = "append"
                out.fired["append"] += 1
                n = len(orig)
            elif fkind in ("stale", "sector"):
                if old is None:
                    old = _older_longer_file(case, name, fs)
                if fkind == "stale":
                    # lost truncate: the new, shorter file is followed by the tail of the older one
                    damaged = orig + old[len(orig):]
                    region = "stale-tail"
                    n = len(orig)
                    out.fired["stale-tail"] += 1
                else:
                    n = (_resolve(ft[1], len(orig)) // 512) * 512
                    if n < len(head):
                        # the sector overlaps the comment header, which no MAC covers and the property does not
                        # speak about (it names damage to the binary, cuts, appended bytes and the key)
                        out.ev("fault", fkind, n, "header", "not-applicable")
                        continue
                    sec = bytes(512) if ft[2] == "zero" else old[n:n + 512]
                    sec = (sec + bytes(512))[:min(512, len(orig) - n)]
                    damaged = orig[:n] + sec + orig[n + len(sec):]
                    region = "sector-" + ft[2]
                    out.fired["sector-" + ft[2]] += 1
            elif fkind == "keybit":
                i = ft[1]
                if (ft[2] if len(ft) > 2 else "copy") == "copy":
                    kb = bytearray(w.key)
                    kb[i // 8] ^= 1 << (i % 8)
                    key = bytes(kb)
                else:
                    # the same buffer object that was just used for a successful read, changed in place
                    kbuf[:] = w.key
                    fs.files[name] = orig
                    try:
                        files.read_file(kind, fs, env, name, "stream", True, kbuf, decs)
                    except Exception:
                        pass
                    kbuf[i // 8] ^= 1 << (i % 8)
                    key = kbuf
                    out.probes["key-buffer-changed-in-place"] += 1
                damaged = orig
                region = "key"
                out.fired["keybit"] += 1
                if not info["entries"]:
                    out.probes["keybit-on-empty-file"] += 1
                n = i
            else:
                raise ValueError("unknown fault " + repr(ft))
            if damaged != orig or fkind == "keybit":
                out.nontrivial = True
            fs.restart()
            fs.files[name] = damaged
            via = "path" if nev % 2 else "stream"
            try:
                # argument kind: callers also pass the flag as an int (1) - "MAC checking on" all the same
                got = files.read_file(kind, fs, env, name, via, 1 if case.get("rng", 0) % 3 == 0 else True, key, decs)
            except SimCrash:
                raise
            except Exception as e:
                out.ev("fault", fkind, n, region, "error", type(e).__name__)
                continue
            diff = files.compare_read(kind, w, got)
            if diff is None and kind == "bec2":
                diff = _blocks_diff(case, w, got)
            if diff is None:
                out.probes["damage-accepted-equal"] += 1
                out.ev("fault", fkind, n, region, "equal")
                continue
            dropped = ""
            if fkind in ("cut_text", "crash", "cut_bin"):
                dropped = _cut_class(fkind, orig, n, head, binary, info)
                ident = "%s/%s:%s" % ("cut" if fkind != "cut_bin" else "cut_bin", dropped, diff[0])
            else:
                ident = "%s@%s:%s" % (fkind, region, diff[0])
            out.ev("fault", fkind, n, region, "ACCEPTED-DIFFERENT", diff[0])
            narrow = dict(case, faults=[[fkind, ["abs", n]] if fkind in ("cut_text", "cut_bin", "crash")
                                        else ([fkind, ["abs", n], ft[2]] if fkind in ("rep", "sector") else ft)])
            out.fail("C04.accepted-different", ident,
                     "%s file, fault %s (resolved position %d, region %s): reader returned "
                     "different content without error: %s" % (kind, ft, n, region or dropped, diff[1]),
                     narrow)
        out.evals = max(1, nev)
    finally:
        env.restore_registry()
    return out


def _blocks_diff(case, w, got):
    """The authentication blocks are content of a BEC2 file too (C02 reads them back).  Compared narrowly, so
    that nothing the format leaves unprotected by design is demanded: a customer-key or update block (AES
    container with marker and CRC) for which the reader was given the decryptor and that still carries its
    own tag must come back opened and with its own fields - a damaged container silently demoted to opaque
    bytes is different content.  Not compared: blocks without a decryptor (opaque bytes no MAC covers), blocks
    whose tag byte was damaged (an unknown tag is kept as opaque by design, C07) and ECC blocks (their selector
    byte legitimately decides whether a supplied decryptor applies)."""
    from props.c02 import _block_mismatch
    bf = env.bec2file
    blocks = list(got.auth_blocks.values())
    specs = case.get("blocks") or []
    if len(blocks) != len(specs):
        return None
    for i, (bspec, blk) in enumerate(zip(specs, blocks)):
        if i not in w.decryptors or bspec["t"] not in ("cust", "upd", "update"):
            continue
        cls = bf.InitCustKeyAuthBlock if bspec["t"] == "cust" else bf.UpdateAuthBlock
        if type(blk) is bf.UnknownAuthBlock and blk.tag != cls.TAG:
            continue
        m = _block_mismatch(bspec, blk, bf)
        if m:
            return "auth-blocks", "block %d, decryptor supplied: %s" % (i, m)
    return None


def _older_longer_file(case, name, fs):
    """an older version of the file that used to occupy the same blocks: same content plus one more
    component, written by the real writer on a scratch medium"""
    extra = {"desc": [[0xC3, "02"]], "blob": {"len": 700, "fill": "rand", "tail0": 0, "s": 4242}, "alen": None,
             "enc": False}
    oc = dict(case, obj=dict(case["obj"], components=case["obj"]["components"] + [extra]))
    fs2 = SimFS()
    env.use_fs(fs2)
    try:
        files.write_file(oc, fs2, env, name)
        return fs2.files[name]
    except Exception:
        return bytes(4096)
    finally:
        env.use_fs(fs)


def _records(fs, name, w):
    return w.records


def _cut_probes(out, orig, n, head, binary, info, regions):
    if n < len(head):
        out.probes["cut-in-comment-header"] += 1
        return
    body = orig[len(head):n]
    if body.endswith(b"\r"):
        out.probes["cut-splits-crlf"] += 1
    hexdigits = sum(1 for c in body if c not in b"\r\n")
    if hexdigits % 2:
        out.probes["cut-inside-hex-pair"] += 1
    nb = hexdigits // 2
    if nb == 5:
        out.probes["cut-after-signature"] += 1
    ds = info.get("dir_start")
    if ds is not None and ds < nb < ds + 4:
        out.probes["cut-inside-dir-size"] += 1
    if nb < len(binary) and not any(binary[nb:]) and hexdigits % 2 == 0:
        out.probes["cut-drops-only-zero-bytes"] += 1


def _cut_class(fkind, orig, n, head, binary, info):
    """what a cut removed, as a stable class name"""
    if fkind == "cut_bin":
        nb = n
    else:
        if n < len(head):
            return "in-comment-header"
        body = orig[len(head):n]
        nb = sum(1 for c in body if c not in b"\r\n") // 2
    regions, _ = refdir.walk(binary)
    if nb < len(binary) and not any(binary[nb:]):
        return "drops-only-zero-bytes"
    return "at-" + refdir.region_of(regions, nb)


def shrink(case):
    if case.get("conc"):
        pre = case["preempt"]
        for i in range(len(pre)):
            yield dict(case, preempt=pre[:i] + pre[i + 1:])
        for ns in G.spec_shrinks(case["obj"]):
            if ns["components"]:
                yield dict(case, obj=ns)
        return
    if isinstance(case["faults"], list) and len(case["faults"]) > 1:
        for i in range(len(case["faults"])):
            yield dict(case, faults=[case["faults"][i]])
    if case.get("blocks") and len(case["blocks"]) > 1:
        for i in range(len(case["blocks"])):
            yield dict(case, blocks=case["blocks"][:i] + case["blocks"][i + 1:])
    if case["kind"] == "bf3" and case["key"] != "00" * 16:
        yield dict(case, key="00" * 16)
    if case.get("via") != "stream":
        yield dict(case, via="stream")
    for ns in G.spec_shrinks(case["obj"]):
        yield dict(case, obj=ns)
