#!/venv/bin/python
"""Evaluate a candidate seeded change (a directory with patch.diff + demo.py):
  1. demo passes on a clean scratch copy of /repo HEAD, fails with the patch applied;
  2. when the patch touches the vendored ecdsa package (the only code the pinned tests import),
     the stable_pass tests of the baseline still pass with it;
  3. run the given checks of /verif against the patched copy.
usage: eval_seeded.py <dir> <property> [<check> ...]      (prints a JSON summary line)
"""
import json
import os
import shutil
import subprocess
import sys
import tempfile
import xml.etree.ElementTree as ET

VERIF = os.path.dirname(os.path.dirname(os.path.abspath(__file__)))


def sh(cmd, **kw):
    return subprocess.run(cmd, capture_output=True, text=True, **kw)


def main():
    d = os.path.abspath(sys.argv[1])
    prop = sys.argv[2]
    checks = sys.argv[3:] or [prop]
    base = tempfile.mkdtemp(prefix="verif-seed-")
    clean = os.path.join(base, "clean")
    pat = os.path.join(base, "patched")
    res = {"dir": d, "property": prop}
    try:
        for dst in (clean, pat):
            os.makedirs(dst)
            p1 = subprocess.Popen(["git", "-C", "/repo", "archive", "HEAD"], stdout=subprocess.PIPE)
            subprocess.check_call(["tar", "-x", "-C", dst], stdin=p1.stdout)
            p1.wait()
        p = sh(["patch", "-p1", "-d", pat, "-i", os.path.join(d, "patch.diff"), "--no-backup-if-mismatch"])
        res["patch_applies"] = p.returncode == 0
        if p.returncode:
            res["patch_err"] = (p.stdout + p.stderr)[-400:]
            print(json.dumps(res))
            return
        env = dict(os.environ, PYTHONDONTWRITEBYTECODE="1", PYTHONHASHSEED="0")
        a = sh(["/venv/bin/python", os.path.join(d, "demo.py"), clean], env=env, timeout=900)
        b = sh(["/venv/bin/python", os.path.join(d, "demo.py"), pat], env=env, timeout=900)
        res["demo_clean_rc"] = a.returncode
        res["demo_patched_rc"] = b.returncode
        res["demo_patched_msg"] = (b.stdout + b.stderr).strip()[-300:]
        diff = open(os.path.join(d, "patch.diff")).read()
        files = [ln[6:].strip() for ln in diff.splitlines() if ln.startswith("+++ b/")]
        res["files"] = files
        if any("/ecdsa/" in f for f in files):
            basej = json.load(open("/root/.vp/BASELINE.json"))
            xml = os.path.join(base, "junit.xml")
            cmd = basej["cmd"].replace("cd /repo", "cd " + pat).replace("<file>", xml)
            subprocess.run(cmd, shell=True, stdout=subprocess.DEVNULL, stderr=subprocess.DEVNULL,
                           env=dict(os.environ, HYPOTHESIS_STORAGE_DIRECTORY=os.path.join(base, "hyp")))
            passed = set()
            for tc in ET.parse(xml).getroot().iter("testcase"):
                if not any(ch.tag in ("failure", "error", "skipped") for ch in tc):
                    passed.add("%s::%s" % (tc.get("classname"), tc.get("name")))
            missing = sorted(set(basej["stable_pass"]) - passed)
            res["tests_missing"] = missing[:10]
            res["tests_ok"] = not missing
        else:
            res["tests_ok"] = True
            res["tests_note"] = "patch does not touch the ecdsa package, the only code the pinned tests import"
        res["checks"] = {}
        for c in checks:
            e2 = dict(os.environ, VERIF_REPO=pat, VERIF_NO_EVIDENCE="1")
            r = sh(["/venv/bin/python", os.path.join(VERIF, "check"), c, "--tier", "quick", "--no-evidence"],
                   env=e2, timeout=3600)
            viol = [ln for ln in r.stdout.splitlines() if ln.startswith("violation:")]
            res["checks"][c] = {"rc": r.returncode, "violations": [v[:200] for v in viol[:3]]}
        print(json.dumps(res))
    finally:
        shutil.rmtree(base, ignore_errors=True)


main()
