#!/venv/bin/python
"""Runs the pinned test suite of /repo (guard off: there are no hooks) and compares with
/root/.vp/BASELINE.json: every stable_pass test must still pass."""
import json
import os
import subprocess
import sys
import tempfile
import xml.etree.ElementTree as ET

base = json.load(open("/root/.vp/BASELINE.json"))
tmp = tempfile.mkdtemp(prefix="verif-baseline-")
xml = os.path.join(tmp, "junit.xml")
cmd = base["cmd"].replace("<file>", xml)
env = dict(os.environ, HYPOTHESIS_STORAGE_DIRECTORY=os.path.join(tmp, "hyp"))
subprocess.run(cmd, shell=True, stdout=subprocess.DEVNULL, stderr=subprocess.DEVNULL, env=env)
passed = set()
for tc in ET.parse(xml).getroot().iter("testcase"):
    if not any(ch.tag in ("failure", "error", "skipped") for ch in tc):
        passed.add("%s::%s" % (tc.get("classname"), tc.get("name")))
want = set(base["stable_pass"])
missing = sorted(want - passed)
print("stable_pass %d, passing now %d, missing %d" % (len(want), len(want & passed), len(missing)))
for m in missing[:20]:
    print("  MISSING", m)
import shutil
shutil.rmtree(tmp, ignore_errors=True)
sys.exit(1 if missing else 0)
