#!/bin/bash
# long background validation of the machinery itself: soak over seeds, then all self-tests
cd "$(dirname "$0")/.."
tools/soak.sh ${1:-1} ${2:-10}
./check selftest seeded
./check selftest mutants
./check selftest determinism 120
./check selftest prefix
echo NIGHTLY DONE
