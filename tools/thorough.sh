#!/bin/bash
# every thorough tier once on the unchanged tree (no evidence written: evidence comes from runs in /verif)
cd "$(dirname "$0")/.."
for p in ${*:-$(/venv/bin/python -c "import json;print(' '.join(json.load(open('tools/claimed.json'))))")}; do
  start=$(date +%s)
  out=$(VERIF_NO_EVIDENCE=1 ./check $p --tier thorough --no-evidence 2>&1); rc=$?
  echo "THOROUGH $p rc=$rc wall=$(( $(date +%s) - start ))s $(echo "$out" | tail -1 | cut -c1-160)"
  if [ $rc -ne 0 ]; then echo "$out" | grep -E -A2 "^(violation|INFRA|\[python)" | cut -c1-600; fi
done
echo THOROUGH DONE
