#!/venv/bin/python
"""Regenerates /verif/MANIFEST.json from the property modules and tools/na.json."""
import importlib
import json
import os
import sys

HERE = os.path.dirname(os.path.dirname(os.path.abspath(__file__)))
sys.path.insert(0, HERE)
os.environ.setdefault("PYTHONDONTWRITEBYTECODE", "1")

CLAIMED = json.load(open(os.path.join(HERE, "tools", "claimed.json")))
NA = json.load(open(os.path.join(HERE, "tools", "na.json")))

checks = []
for pid in CLAIMED:
    m = importlib.import_module("props." + pid.lower())
    checks.append({
        "property_id": pid,
        "quick_cmd": "./check %s --tier quick" % pid,
        "thorough_cmd": "./check %s --tier thorough" % pid,
        "evidence_file": "/verif/evidence/%s.json" % pid,
        "replay_cmd_template": "./check %s --replay {path}" % pid,
        "engine": m.ENGINE,
        "level_claimed": {"category": m.LEVEL, "text": m.LEVEL_TEXT, "design_ref": m.DESIGN_REF},
        "level_note": m.LEVEL_NOTE,
        "technique": m.TECHNIQUE,
    })

man = {
    "version": 1,
    "setup_cmd": "./check setup",
    "hooks": {
        "guard": "BEC2FORMAT_VERIF",
        "enable": "no source hooks exist: the harness injects its seams at run time (module attribute "
                  "bec2format.bf3file.open, plug-in registries register_*, os shims in the plug-in and "
                  "ecdsa.util, threading shim in ecdsa._rwlock, stream arguments); BEC2FORMAT_VERIF is read "
                  "by nothing in /repo",
        "baseline_off_cmd": "cd /repo && /venv/bin/python -m pytest -ra -q -p no:cacheprovider --timeout=900 "
                            "--continue-on-collection-errors",
        "source_commits": [],
        "add_only": True,
    },
    "engines": json.load(open(os.path.join(HERE, "tools", "engines.json"))),
    "checks": checks,
    "notes": "Deterministic simulation with fault injection; see DESIGN.md. Genuine defects repaired in /repo "
             "by 'fix:' commits are listed in known_findings.json (status fixed).",
    "not_applicable": NA,
}
json.dump(man, open(os.path.join(HERE, "MANIFEST.json"), "w"), indent=1)
print("MANIFEST.json: %d checks, %d not applicable" % (len(checks), len(NA)))
