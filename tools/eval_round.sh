#!/bin/bash
# evaluate every _seeded/{A,B} under /tmp/<prefix>-Cxx with the property's own check; 4 at a time
prefix=$1; shift
cd "$(dirname "$0")/.."
ls -d /tmp/${prefix}-C*/_seeded/[AB] 2>/dev/null | while read d; do
  p=$(echo $d | sed -E 's#.*-(C[0-9]+)/_seeded/.*#\1#'); ab=$(basename $d)
  echo "$d $p /tmp/eval-${prefix}-${p}-${ab}.json"
done | xargs -P 4 -L 1 sh -c '/venv/bin/python tools/eval_seeded.py $0 $1 > $2 2>/dev/null'
for f in /tmp/eval-${prefix}-*.json; do /venv/bin/python - $f <<'PY'
import json,sys
try:
    d=json.load(open(sys.argv[1]))
except Exception as e:
    print(sys.argv[1],'ERR',e); sys.exit()
print(sys.argv[1].split('eval-')[1], 'applies',d.get('patch_applies'),'demo',d.get('demo_clean_rc'),d.get('demo_patched_rc'),'tests',d.get('tests_ok'), {k:(v['rc'],v['violations'][:1]) for k,v in d.get('checks',{}).items()})
PY
done
