#!/bin/bash
# every quick check on the unchanged tree, with its exit code (0 expected); extra args are passed on
cd "$(dirname "$0")/.."
bad=0
for p in $(/venv/bin/python -c "import json;print(' '.join(json.load(open('tools/claimed.json'))))"); do
  out=$(./check $p "$@" 2>&1); rc=$?
  echo "$p rc=$rc $(echo "$out" | tail -1 | cut -c1-100)"
  if [ $rc -ne 0 ]; then bad=1; echo "$out" | grep -E -A1 "^(violation|INFRA)" | cut -c1-400; fi
done
exit $bad
