#!/bin/bash
# soak: every quick check under many VERIF_SEED values on the unchanged tree; any non-zero exit is logged
# usage: tools/soak.sh <first seed> <last seed> [props...]
cd "$(dirname "$0")/.."
first=${1:-1}; last=${2:-20}; shift 2
props=${*:-$(/venv/bin/python -c "import json;print(' '.join(json.load(open('tools/claimed.json'))))")}
bad=0
for seed in $(seq $first $last); do
  for p in $props; do
    out=$(VERIF_SEED=$seed VERIF_NO_EVIDENCE=1 ./check $p --tier quick --no-evidence 2>&1); rc=$?
    line=$(echo "$out" | tail -1 | cut -c1-110)
    echo "seed=$seed $p rc=$rc $line"
    if [ $rc -ne 0 ]; then bad=$((bad+1)); echo "$out" | grep -E -A2 "^(violation|INFRA)" | cut -c1-600; fi
  done
done
echo "SOAK DONE bad=$bad"
