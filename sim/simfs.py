"""E-store: a simulated medium.  SimFS maps names to *durable* bytes; every open
write handle keeps what was written but not yet made durable in a volatile
buffer.  Durable on close()/flush(); on a crash an arbitrary prefix chosen by
the fault plan.  Text layer as open(..., "w"/"r", newline=...) does it.
"""
import errno


class SimCrash(BaseException):
    """The writer process dies here (BaseException: no `except Exception` in
    the code under test can swallow it)."""


class SimFS:
    def __init__(self):
        self.files = {}        # name -> durable bytes
        self.plan = {}         # name -> {write_call_index: fault}
        self.trace = []        # (op, name, ...) as seen by the medium
        self.fired = []        # faults that actually fired
        self.handles = []

    # the seam: bec2format.bf3file.open = simfs.open
    # os-level seam (a writer may create its file with os.open and wrap the descriptor)
    def os_open(self, path, flags, mode=0o777, **kw):
        import os as _os
        if path not in self.files:
            if not flags & _os.O_CREAT:
                raise FileNotFoundError(errno.ENOENT, "No such file (simulated)", path)
            self.files[path] = b""
        elif flags & _os.O_CREAT and flags & _os.O_EXCL:
            raise FileExistsError(errno.EEXIST, "File exists (simulated)", path)
        if flags & _os.O_TRUNC:
            self.files[path] = b""
        self._fds = getattr(self, "_fds", {})
        fd = 1000 + len(self._fds)
        self._fds[fd] = (path, flags)
        self.trace.append(("os-open", path, flags))
        return fd

    def os_shim(self):
        import os as _os
        fs = self

        class _Os:
            def __getattr__(self, name):
                return getattr(_os, name)

            def open(self, path, flags, mode=0o777, **kw):
                return fs.os_open(path, flags, mode, **kw)

            def close(self, fd):
                if fd in getattr(fs, "_fds", {}):
                    return None
                return _os.close(fd)

            def fdopen(self, fd, *a, **k):
                return fs.open(fd, *a, **k)
        return _Os()

    def open(self, path, mode="r", buffering=-1, encoding=None, errors=None, newline=None, **kw):
        """as builtins.open for text files; encoding None = the platform default (UTF-8 here)"""
        enc = encoding or "utf-8"
        if isinstance(path, int):
            # wrapping a descriptor from os_open: mode "w" does NOT truncate an already open descriptor
            name, flags = getattr(self, "_fds", {}).get(path, (None, 0))
            if name is None:
                raise OSError(errno.EBADF, "Bad file descriptor (simulated)")
            if mode.startswith("w") or mode.startswith("a"):
                h = SimTextWriter(self, name, newline, self.plan.get(name, {}), enc)
                h.base = self.files.get(name, b"")
                h.append = mode.startswith("a")
                self.handles.append(h)
                return h
            h = SimTextReader(self.files[name], newline, enc, errors)
            self.handles.append(h)
            return h
        if "b" in mode:
            raise ValueError("SimFS is a text-file seam")
        if mode.startswith("w"):
            self.trace.append(("open-w", path, newline))
            h = SimTextWriter(self, path, newline, self.plan.get(path, {}), enc)
            self.files[path] = b""  # O_TRUNC
            self.handles.append(h)
            return h
        if mode.startswith("r"):
            if path not in self.files:
                raise FileNotFoundError(errno.ENOENT, "No such file (simulated)", path)
            self.trace.append(("open-r", path, newline))
            h = SimTextReader(self.files[path], newline, enc, errors)
            self.handles.append(h)
            return h
        raise ValueError("unsupported mode " + mode)

    def restart(self):
        """Process restart: every handle dies with its volatile data."""
        for h in self.handles:
            if isinstance(h, SimTextWriter) and not h.closed:
                h.dead = True
        self.handles = []


class SimTextWriter:
    def __init__(self, fs, name, newline, plan, encoding="utf-8"):
        self.encoding = encoding
        self.fs = fs
        self.name = name
        self.newline = newline
        self.plan = plan
        self.volatile = []   # bytes not yet durable
        self.calls = 0
        self.closed = False
        self.dead = False
        self.records = []    # length in bytes of every write call

    def _encode(self, s):
        if not isinstance(s, str):
            raise TypeError("write() argument must be str, not %s" % type(s).__name__)
        if self.newline in ("\r\n", "\r"):
            s = s.replace("\n", self.newline)
        # newline None on POSIX / "" / "\n": no translation
        return s.encode(self.encoding)

    def write(self, s):
        if self.closed:
            raise ValueError("I/O operation on closed file.")
        data = self._encode(s)
        k = self.calls
        self.calls += 1
        fault = self.plan.get(k)
        if self.dead:
            raise SimCrash()
        if fault:
            kind = fault[0]
            if kind == "crash":
                # keep: number of bytes of (volatile + this write) that reached the medium
                allb = b"".join(self.volatile) + data
                keep = min(fault[1], len(allb))
                self.fs.files[self.name] = self.fs.files.get(self.name, b"") + allb[:keep]
                self.volatile = []
                self.dead = True
                self.fs.fired.append(("crash", self.name, k, keep))
                raise SimCrash()
            if kind in ("enospc", "eio"):
                part = data[:min(fault[1], len(data))]
                self.volatile.append(part)
                self.records.append(len(part))
                self.fs.fired.append((kind, self.name, k, len(part)))
                raise OSError(errno.ENOSPC if kind == "enospc" else errno.EIO,
                              "simulated " + kind)
        self.volatile.append(data)
        self.records.append(len(data))
        return len(s)

    base = None      # set for handles that wrap a descriptor of an existing file (no truncation)
    append = False

    def flush(self):
        if self.dead or self.closed:
            return
        if self.base is not None and not self.append:
            # overwrite in place from offset 0: what lies beyond the written bytes stays
            self.written = getattr(self, "written", b"") + b"".join(self.volatile)
            self.fs.files[self.name] = self.written + self.base[len(self.written):]
            self.volatile = []
            return
        self.fs.files[self.name] = self.fs.files.get(self.name, b"") + b"".join(self.volatile)
        self.volatile = []

    def close(self):
        if self.closed:
            return
        if not self.dead:
            self.flush()
            self.fs.trace.append(("close", self.name, self.calls))
        self.closed = True

    def __enter__(self):
        return self

    def __exit__(self, *a):
        self.close()


class SimTextReader:
    """Read handle: decodes lazily (as a real text file does, errors surface
    from read calls), universal newlines unless newline="" was asked for."""

    def __init__(self, data, newline=None, encoding="utf-8", errors=None):
        self.encoding = encoding
        self.errors = errors or "strict"
        self.data = data
        self.newline = newline
        self._text = None
        self.pos = 0
        self.closed = False

    def _load(self):
        if self._text is None:
            t = self.data.decode(self.encoding, self.errors)  # UnicodeDecodeError is a ValueError
            if self.newline is None:
                t = t.replace("\r\n", "\n").replace("\r", "\n")
            self._text = t
        return self._text

    def readline(self, size=-1):
        if self.closed:
            raise ValueError("I/O operation on closed file.")
        t = self._load()
        if self.pos >= len(t):
            return ""
        j = t.find("\n", self.pos)
        end = len(t) if j < 0 else j + 1
        if size is not None and size >= 0:
            end = min(end, self.pos + size)      # at most `size` characters, as io.TextIOBase.readline
        line = t[self.pos:end]
        self.pos = end
        return line

    def read(self, n=-1):
        if self.closed:
            raise ValueError("I/O operation on closed file.")
        t = self._load()
        if n is None or n < 0:
            out = t[self.pos:]
            self.pos = len(t)
        else:
            out = t[self.pos:self.pos + n]
            self.pos += len(out)
        return out

    def __iter__(self):
        return self

    def __next__(self):
        line = self.readline()
        if not line:
            raise StopIteration
        return line

    def close(self):
        self.closed = True

    def __enter__(self):
        return self

    def __exit__(self, *a):
        self.close()


class SimByteStream:
    """Binary stream whose read(n) returns between 1 and n bytes (short reads),
    sizes taken from an explicit list (cycled)."""

    def __init__(self, data=b"", sizes=None):
        self.data = bytes(data)
        self.pos = 0
        self.sizes = list(sizes or [])
        self.k = 0
        self.out = []
        self.reads = 0
        self.short = 0

    def read(self, n=-1):
        rest = len(self.data) - self.pos
        if n is None or n < 0:
            n = rest
        want = min(n, rest)
        if self.sizes and want > 0:
            s = self.sizes[self.k % len(self.sizes)]
            self.k += 1
            got = max(1, min(want, s))
        else:
            got = want
        if got < min(n, rest):
            self.short += 1
        self.reads += 1
        chunk = self.data[self.pos:self.pos + got]
        self.pos += got
        return chunk

    def write(self, b):
        self.out.append(bytes(b))
        return len(b)

    def getvalue(self):
        return b"".join(self.out)
