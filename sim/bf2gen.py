"""BF2 workload: a generator of legacy BF2 texts from a *ground truth* (sections with
image bytes and stated instructions), in a conservative sub-grammar in which every
section states all of its instructions itself:

    ##Firmware: / ##Creator: / ##Bf3Update:            (file header)
    per section:
      #>CHECK_FWVER VERSIONDESC=..                     (first: closes the previous section)
      #>SELECT FILTER=..      #>SELECT_IF PROTOCOL=..
      :....FE00   data lines   :....FF00               (one or more load groups)
      ##CRC: 0x........       #>REBOOT                 (optional; REBOOT last)

plus RefBF2: what the surviving data lines of a section describe (extents), written from
the property text, importing nothing from /repo.
"""
import random

from .gen import make_blob

# tag type -> (component type, hardware id, format, interface) as the property/format states
TAGTYPES = {
    0x34: None, 0x48: None,                      # ignored prepare / activate sections
    0x35: (1, 0x9B, 0, 5), 0x39: (1, 0xBE, 0, None), 0x3D: (1, 0xAD, 0, 5), 0x40: (1, 0xC0, 0, 5),
    0x70: (0, None, 2, None), 0x83: (0, None, 2, None), 0x84: (2, None, 2, None),
}
PAGES = {0x35: 4, 0x39: 4, 0x3D: 2, 0x40: 8, 0x70: 4, 0x83: 1, 0x84: 32, 0x34: 1, 0x48: 1}
HWNAMES = {0x9B: "SM4200", 0xBE: "BGM12X", 0xAD: "PN5180", 0xC0: "SM6300", 0x9C: "RC663", 0xB7: "USB",
           0xBD: "SM4500", 0xBF: "BGM220"}
INTERFACES = {"BRP": 0, "BRP-SER": 1, "BRP-CCID": 2, "BRP-TCP": 3, "BRP-OSDP": 4, "ISO7816-4": 5}
INTF_NAMES = {0: "BRP_HID", 1: "BRP_SER", 2: "BRP_CCID", 3: "BRP_TCP", 4: "OSDP", 5: "NFC"}

T_FMT, T_ENC, T_TYPE, T_HWCID, T_REBOOT, T_INTF, T_CRC, T_FWVER, T_PFID2 = (
    0xC1, 0xC2, 0xC3, 0xC4, 0xC5, 0xC6, 0xC7, 0xC8, 0xC9)


def _filter_spec(rng, peripheral):
    if peripheral:
        hw = rng.choice([0x9B, 0xAD, 0xC0, 0xBE, 0x9C, 0x123, 0x3FFF, 0x01])
        return "0101%04X" % hw
    n = rng.choice([1, 2, 3, 4, 1, 2, 3, 4, 0])
    ents = []
    for i in range(n):
        e = rng.choice([0x9B, 0xAD, 0xC0, 0xBE, 0x9C, 0xB7, 0x0B, 0x0C, 0x222])
        if rng.random() < 0.3:
            e |= 0x4000
        if i < n - 1 and rng.random() < 0.5:
            e |= 0x8000
        ents.append(e)
    return "01%02X" % n + "".join("%04X" % e for e in ents)


def gen_section(rng, max_image, allow_ignored=True):
    r = rng.random()
    if allow_ignored and r < 0.12:
        tt = rng.choice([0x34, 0x48])
    else:
        tt = rng.choice([0x35, 0x39, 0x3D, 0x40, 0x70, 0x83, 0x84, 0x84])
    info = TAGTYPES[tt]
    pages = PAGES[tt]
    r = rng.random()
    if r < 0.5:
        n = rng.randint(1, min(max_image, 400))
    elif r < 0.9:
        n = rng.randint(1, max_image)
    else:
        n = rng.choice([1, 250, 251, 500])
    n = min(n, pages * 0x10000)
    sec = {"tt": tt, "image": {"len": n, "fill": "rand", "tail0": 0, "s": rng.getrandbits(32)},
           "ls": rng.choice([1, 16, 32, 64, 128, 250, "mixed", "mixed"]), "lseed": rng.getrandbits(16),
           "groups": rng.choice(["one", "one", "split"]),
           "select": None, "select_if": None, "fwver": None, "crc": None, "reboot": False,
           "hexstyle": rng.choice([0, 0, 0, 1, 2, 3, 4, 5])}
    if info is None:
        return sec
    ctype = info[0]
    if rng.random() < 0.6:
        sec["select"] = _filter_spec(rng, ctype == 1)
    if ctype == 0:
        sec["select_if"] = rng.choice(list(INTERFACES))
    elif rng.random() < 0.3:
        sec["select_if"] = rng.choice(list(INTERFACES) + ["*"])
    if rng.random() < 0.5:
        nv = rng.choice([1, 2, 4, 7])
        if nv >= 7:
            v = bytes(rng.choice(b"0123456789.abcXYZ") for _ in range(nv))  # BGM versions are text
        else:
            v = bytes(rng.getrandbits(8) for _ in range(nv))
        sec["fwver"] = v.hex()
    elif rng.random() < 0.3:
        sec["fwver"] = "*"
    if rng.random() < 0.4:
        # the checksum as BF2 tools print it: a hexadecimal number, zero-padded or not
        v = rng.getrandbits(rng.choice([32, 32, 28, 24, 20, 12, 4]))
        sec["crc"] = rng.choice(["%08X", "%08X", "%X", "%x"]) % v
    sec["reboot"] = rng.random() < 0.5
    # a package may carry several firmwares: a section can bring its own ##Firmware header
    if rng.random() < 0.2:
        if rng.random() < 0.7:
            sec["fw"] = {"id": rng.choice([1053, 1100, 4242, 7]), "ver": "%d.%02d.%02d" % (
                rng.randrange(10), rng.randrange(100), rng.randrange(100))}
        else:
            sec["fw"] = {"id": 1053, "ver": "D-%05d" % rng.randrange(100000)}
    return sec


UNKNOWN_TTS = [0x10, 0x50, 0x60, 0xB0, 0xFD,     # outside every known tag-type range ...
               0x33, 0x3F, 0x49, 0x6F, 0x74, 0x82, 0xA4]   # ... including the values right next to a range
UNMAPPED_FIRST = [0x36, 0x71, 0x85, 0x41]        # inside a known range but not the base type of a section
for _t in UNKNOWN_TTS + UNMAPPED_FIRST:
    PAGES[_t] = 1


def is_unknown(tt):
    return tt not in TAGTYPES


def gen_spec(rng, max_image=2000, marker=None, p_unknown=0.0):
    nsec = rng.choice([1, 1, 2, 2, 3, 4])
    fw = None
    r = rng.random()
    if r < 0.6:
        fw = {"id": rng.choice([1053, 1100, 9999, 1]), "ver": "%d.%02d.%02d" % (
            rng.randrange(10), rng.randrange(100), rng.randrange(100))}
    elif r < 0.8:
        fw = {"id": 1053, "ver": "D-%05d" % rng.randrange(100000)}
    if fw:
        fw["name"] = rng.choice(["BALTECHFW", "BALTECHFW", "ID-ENGINE", "STD-RDR-1", "ACCESS200", "D-LINK-FW"])   # 9 characters
    if marker is None:
        marker = rng.random() < 0.9
    secs = [gen_section(rng, max_image) for _ in range(nsec)]
    if all(TAGTYPES[x["tt"]] is None for x in secs):
        secs.append(gen_section(rng, max_image, allow_ignored=False))
    if rng.random() < p_unknown:
        # a section whose tag type BF3 cannot represent: the whole file must be rejected
        bad = gen_section(rng, min(max_image, 300), allow_ignored=False)
        if rng.random() < 0.5:
            bad["tt"] = rng.choice(UNKNOWN_TTS)
            secs.insert(rng.randint(0, len(secs)), bad)
        else:
            bad["tt"] = rng.choice(UNMAPPED_FIRST)
            secs.insert(0, bad)
        bad["groups"] = "one"
        bad["select"] = None
        bad["select_if"] = "BRP"
        bad["reboot"] = False
    # instructions persist between sections in BF2: once a kind of instruction has been stated,
    # every later non-ignored section states its own (so the truth never depends on persistence)
    seen_sel = seen_if = False
    for sec in secs:
        info = TAGTYPES.get(sec["tt"])
        if info is None:
            continue
        if seen_sel and not sec["select"]:
            sec["select"] = _filter_spec(rng, info[0] == 1)
        if seen_if and not sec["select_if"]:
            sec["select_if"] = "*"
        seen_sel = seen_sel or bool(sec["select"])
        seen_if = seen_if or bool(sec["select_if"])
    last = secs[-1]
    if rng.random() < 0.12 and TAGTYPES.get(last["tt"]) is not None and not last["reboot"] and not is_unknown(last["tt"]):
        # a second section of the same tag type right behind the last one, without instruction lines of its own:
        # only the load markers separate the two; the instructions in force (filter, interface, firmware header)
        # apply to it, the version description and checksum of the section before it do not
        twin = dict(last, image=dict(last["image"], s=rng.getrandbits(32), len=rng.randint(1, max(1, min(max_image, 300)))),
                    fwver=None, crc=None, reboot=False, twin=True, groups="one")
        twin.pop("fw", None)
        secs.append(twin)
    return {"fw": fw, "creator": rng.choice([None, "ConfigEditor 1.2", "x"]),
            "marker": rng.choice(["Yes", "Yes", "Yes", "1", "0", "no", ""]) if marker else None, "crlf": rng.random() < 0.3,
            "sections": secs}


# ------------------------------------------------------------- rendering ---
def _line_sizes(sec, n):
    if sec["ls"] == "mixed":
        r = random.Random(sec["lseed"])
        out = []
        left = n
        while left > 0:
            k = min(left, r.choice([1, 2, 7, 16, 33, 100, 249, 250]))
            out.append(k)
            left -= k
        return out
    k = sec["ls"]
    return [min(k, n - i) for i in range(0, n, k)]


def section_lines(sec):
    """data lines of a section: list of dicts {type, offs, data, text, raw}; lines never
    cross a 64 KiB page (the offset field is 16 bit)"""
    img = make_blob(sec["image"])
    lines = []
    pos = 0
    ndx = 0
    for size in _line_sizes(sec, len(img)):
        while size > 0:
            page, offs = divmod(pos, 0x10000)
            k = min(size, 0x10000 - offs)
            data = img[pos:pos + k]
            fwtag = bytes([k + 2]) + offs.to_bytes(2, "big") + data
            raw = (ndx & 0xFFFF).to_bytes(2, "big") + bytes([sec["tt"] + page, len(fwtag)]) + fwtag
            lines.append({"type": sec["tt"] + page, "offs": pos, "data": data, "raw": raw,
                          "text": ":" + raw.hex().upper()})
            pos += k
            size -= k
            ndx += 1
    return lines


def _hexstyle(b, style):
    """spellings of a byte string that the library's hex reader accepts (it drops white space and - . / :)"""
    if style == 1:
        return b.hex(" ")
    if style == 2:
        return b.hex().upper()
    if style == 3:
        return b.hex("-").upper()
    if style == 4:
        return b.hex(" ").upper().replace(" ", "  ")
    if style == 5:
        return b.hex(":")
    return b.hex(" ").upper()


def render_items(spec):
    """list of (kind, section index or None, text line without newline, line record or None)"""
    items = []
    if spec["fw"]:
        items.append(("hdr", None, "##Firmware: %04d %s %s" % (spec["fw"]["id"], spec["fw"].get("name", "BALTECHFW"),
                                                              spec["fw"]["ver"]), None))
    if spec["creator"]:
        items.append(("hdr", None, "##Creator: " + spec["creator"], None))
    if spec["marker"] is not None:
        # the marker counts by being there, whatever its value (an empty value included)
        items.append(("hdr", None, ("##Bf3Update: " + spec["marker"]).rstrip(" ") if spec["marker"] == ""
                      else "##Bf3Update: " + spec["marker"], None))
    for si, sec in enumerate(spec["sections"]):
        desc = sec["fwver"]
        if desc is None or desc == "*":
            vd = "*"
        else:
            v = bytes.fromhex(desc)
            vd = _hexstyle(b"\x01\x00" + bytes([len(v)]) + v, sec.get("hexstyle", 0))
        if not sec.get("twin"):
            items.append(("instr", si, "#>CHECK_FWVER VERSIONDESC=" + vd, None))
        if sec.get("fw"):
            items.append(("instr", si, "##Firmware: %04d %s %s" % (sec["fw"]["id"], sec["fw"].get("name", "BALTECHFW"),
                                                                  sec["fw"]["ver"]), None))
        if sec["select"] and not sec.get("twin"):
            items.append(("instr", si, "#>SELECT FILTER=" + _hexstyle(bytes.fromhex(sec["select"]), sec.get("hexstyle", 0)), None))
        if sec["select_if"] and not sec.get("twin"):
            items.append(("instr", si, "#>SELECT_IF PROTOCOL=" + sec["select_if"], None))
        lines = section_lines(sec)
        groups = [lines]
        if sec["groups"] == "split":
            # one load group per 64 KiB page (a group that starts with a mapped base type would
            # start a new component, so groups may only be split where the tag type changes)
            groups = []
            for ln in lines:
                if not groups or groups[-1][-1]["type"] != ln["type"]:
                    groups.append([])
                groups[-1].append(ln)
        for g in groups:
            items.append(("marker", si, ":0000FE00", None))
            for ln in g:
                items.append(("data", si, ln["text"], ln))
            items.append(("marker", si, ":0000FF00", None))
        if sec["crc"]:
            items.append(("instr", si, "##CRC: 0x" + sec["crc"], None))
        if sec["reboot"] and TAGTYPES.get(sec["tt"]) is not None:
            items.append(("instr", si, "#>REBOOT", None))
    return items


def render(spec, items=None):
    items = render_items(spec) if items is None else items
    nl = "\r\n" if spec.get("crlf") else "\n"
    return "".join(it[2] + nl for it in items)


# ----------------------------------------------------------- ground truth ---
def filter_eval(fbytes, present):
    """platform filter semantics: AND of groups, a group is an OR of entries chained by bit 15,
    bit 14 negates, low 14 bits are the hardware id"""
    n = fbytes[1]
    res = True
    grp = False
    for i in range(n):
        e = int.from_bytes(fbytes[2 + 2 * i:4 + 2 * i], "big")
        v = (e & 0x3FFF) in present
        if e & 0x4000:
            v = not v
        grp = grp or v
        if not e & 0x8000:
            res = res and grp
            grp = False
    return res


def truth(spec):
    """expected components in output order: list of {si, type, fmt, tags(dict), payload}"""
    comps = []
    fw_now = spec["fw"]
    for si, sec in enumerate(spec["sections"]):
        if sec.get("fw"):
            fw_now = sec["fw"]       # the header in force for this and the following sections
        info = TAGTYPES.get(sec["tt"])
        if info is None:
            continue
        ctype, hw, fmt, intf = info
        if sec.get("twin") and si > 0:
            # no instruction lines of its own: filter and interface of the section before it stay in force
            sec = dict(sec, select=spec["sections"][si - 1]["select"], select_if=spec["sections"][si - 1]["select_if"])
        tags = {T_FMT: bytes([fmt]), T_TYPE: bytes([ctype])}
        if hw is not None:
            tags[T_HWCID] = hw.to_bytes(2, "big")
        if intf is not None:
            tags[T_INTF] = bytes([intf])
        if sec["reboot"]:
            tags[T_REBOOT] = b"\x01"
        if sec["crc"]:
            tags[T_CRC] = int(sec["crc"], 16).to_bytes(4, "big")
        if sec["select"]:
            f = bytes.fromhex(sec["select"])
            tags[T_PFID2] = f
            if ctype == 1:
                tags[T_HWCID] = f[-2:]
        if sec["fwver"] not in (None, "*"):
            tags[T_FWVER] = bytes.fromhex(sec["fwver"])
        if fw_now and not fw_now["ver"].startswith("D-") and ctype in (0, 2):
            tags[T_FWVER] = fw_now["id"].to_bytes(2, "big") + bytes(
                int(x) for x in fw_now["ver"].split("."))
        if sec["select_if"] and sec["select_if"] != "*":
            tags[T_INTF] = bytes([INTERFACES[sec["select_if"]]])
        lines = section_lines(sec)
        if fmt == 2:
            payload = b"".join(ln["raw"] for ln in lines)
        else:
            payload = make_blob(sec["image"])
        comps.append({"si": si, "type": ctype, "fmt": fmt, "tags": tags, "payload": payload})
    comps.sort(key=lambda c: c["type"])   # stable: file order within a type
    return comps


def extents_verdict(surviving):
    """RefBF2 for a blob section: surviving = [(offs, data)] in file order.
    -> ('image', bytes) if they are a contiguous image from 0, else ('reject', reason)"""
    pos = 0
    out = []
    for offs, data in surviving:
        if offs != pos:
            return "reject", ("non-zero start" if not out else "gap or overlap at %d (line says %d)" % (pos, offs))
        out.append(data)
        pos += len(data)
    if not out:
        return "empty", b""
    return "image", b"".join(out)


def spec_shrinks(spec):
    secs = spec["sections"]
    for i in range(len(secs)):
        if len(secs) > 1:
            if i + 1 < len(secs) and secs[i + 1].get("twin"):
                # a section and the instruction-less section behind it go together
                if len(secs) > 2:
                    yield dict(spec, sections=secs[:i] + secs[i + 2:])
                continue
            yield dict(spec, sections=secs[:i] + secs[i + 1:])
    for k in ("fw", "creator"):
        if spec[k]:
            yield dict(spec, **{k: None})
    if spec.get("crlf"):
        yield dict(spec, crlf=False)
    for i, s in enumerate(secs):
        if s.get("fw"):
            yield dict(spec, sections=secs[:i] + [dict(s, fw=None)] + secs[i + 1:])
        for k in ("select", "select_if", "fwver", "crc"):
            if s[k]:
                if k == "select_if" and TAGTYPES.get(s["tt"]) and TAGTYPES[s["tt"]][0] == 0:
                    continue
                yield dict(spec, sections=secs[:i] + [dict(s, **{k: None})] + secs[i + 1:])
        if s["reboot"]:
            yield dict(spec, sections=secs[:i] + [dict(s, reboot=False)] + secs[i + 1:])
        if s["groups"] != "one":
            yield dict(spec, sections=secs[:i] + [dict(s, groups="one")] + secs[i + 1:])
        n = s["image"]["len"]
        for m in (1, 2, 3, n // 2, n - 1):
            if 1 <= m < n:
                yield dict(spec, sections=secs[:i] + [dict(s, image=dict(s["image"], len=m))] + secs[i + 1:])
        if s["ls"] == "mixed":
            yield dict(spec, sections=secs[:i] + [dict(s, ls=16)] + secs[i + 1:])
