"""Kit shared by all checks: seeded streams, event log, outcomes, the parallel
runner, known-findings handling, minimisation, replay files and evidence.

One integer decides everything:  run i of property P under VERIF_SEED s has
run seed sha256("P|s|i")[:8]; inside a run every named sub-stream is a
random.Random keyed by sha256(run_seed|name).  A run is first turned into an
explicit JSON *case* (operations, faults, schedule) by the property's gen();
run(case) is a pure function of the case and of the code under test, so the
case file is the replay file and shrinking works on it directly.
"""
import collections
import faulthandler
import hashlib
import json
import multiprocessing
import os
import random
import subprocess
import sys
import time
import traceback
from concurrent.futures import ProcessPoolExecutor
from concurrent.futures.process import BrokenProcessPool

VERIF_DIR = os.path.dirname(os.path.dirname(os.path.abspath(__file__)))
REPO = os.environ.get("VERIF_REPO", "/repo")


# --------------------------------------------------------------------------
# seeds and streams
# --------------------------------------------------------------------------
def run_seed(prop_id, verif_seed, index):
    h = hashlib.sha256(("%s|%d|%d" % (prop_id, verif_seed, index)).encode()).digest()
    return int.from_bytes(h[:8], "big")


class Streams:
    """Independent named PRNG streams of one run."""

    def __init__(self, seed, index=0):
        self.seed = seed
        self.index = index   # position of the run in its batch (systematic enumerations use it)
        self._s = {}

    def __getitem__(self, name):
        r = self._s.get(name)
        if r is None:
            h = hashlib.sha256(("%d|%s" % (self.seed, name)).encode()).digest()
            r = self._s[name] = random.Random(int.from_bytes(h[:16], "big"))
        return r


def rbytes(rng, n):
    return bytes(rng.getrandbits(8) for _ in range(n)) if n else b""


def hx(b):
    return b.hex()


def unhx(s):
    return bytes.fromhex(s)


# --------------------------------------------------------------------------
# outcome of one run
# --------------------------------------------------------------------------
class Outcome:
    __slots__ = ("violations", "log", "fired", "probes", "nontrivial", "evals",
                 "sim_time", "sets")

    def __init__(self):
        self.violations = []  # list of (clause, ident, detail)
        self.log = []         # event log: small tuples / strings only
        self.fired = collections.Counter()   # fault kind -> times it actually fired
        self.probes = collections.Counter()  # reach probes
        self.nontrivial = False
        self.evals = 1
        self.sim_time = 0.0
        self.sets = {}        # name -> set of small hashables (distinct states, interleavings, ...)

    def ev(self, *item):
        self.log.append(item)

    def fail(self, clause, ident, detail, case=None):
        """case: optionally a narrower case that reproduces just this violation"""
        self.violations.append((clause, str(ident), str(detail)[:2000], case))

    @property
    def ok(self):
        return not self.violations

    def digest(self):
        return hashlib.sha256(repr(self.log).encode()).digest()[:8]


def exc_site(exc, prefixes=None):
    """(file, function) of the innermost frame inside the code under test."""
    tb = traceback.extract_tb(exc.__traceback__)
    site = None
    for fr in tb:
        fn = fr.filename
        if fn.startswith(REPO):
            site = (os.path.relpath(fn, REPO), fr.name)
    if site is None and tb:
        fr = tb[-1]
        site = (os.path.basename(fr.filename), fr.name)
    return "%s:%s" % site if site else "?"


# --------------------------------------------------------------------------
# known findings
# --------------------------------------------------------------------------
def load_known():
    p = os.path.join(VERIF_DIR, "known_findings.json")
    if not os.path.exists(p):
        return []
    with open(p) as f:
        return json.load(f).get("findings", [])


def match_known(known, prop_id, clause, ident):
    for k in known:
        if k.get("status") != "open" or k.get("property") != prop_id:
            continue
        if k.get("clause") == clause and k.get("ident") == ident:
            return k
    return None


# --------------------------------------------------------------------------
# minimisation helpers (delta debugging on JSON cases)
# --------------------------------------------------------------------------
def ddmin_list(items, test, budget):
    """Classic ddmin on a list; test(list)->bool (True = still fails)."""
    n = 2
    items = list(items)
    while len(items) >= 2 and budget[0] > 0:
        chunk = max(1, len(items) // n)
        reduced = False
        for start in range(0, len(items), chunk):
            cand = items[:start] + items[start + chunk:]
            if not cand:
                continue
            budget[0] -= 1
            if test(cand):
                items = cand
                n = max(n - 1, 2)
                reduced = True
                break
            if budget[0] <= 0:
                break
        if not reduced:
            if chunk == 1:
                break
            n = min(len(items), n * 2)
    if len(items) == 1 and budget[0] > 0:
        budget[0] -= 1
        if test([]):
            return []
    return items


def minimise(prop, case, clause, ident, max_tests=400, wall=60.0):
    """Greedy minimisation: the property offers candidates through
    prop.shrink(case); a candidate is kept iff the same clause+ident fails."""
    t0 = time.time()
    tests = [0]

    def still(c):
        tests[0] += 1
        try:
            out = run_with_watchdog(prop, c, getattr(prop, "RUN_WALL_CAP", 300))
        except Exception:
            return False
        return any(v[0] == clause and v[1] == ident for v in out.violations)

    shrink = getattr(prop, "shrink", None)
    if shrink is None:
        return case, tests[0]
    improved = True
    while improved and tests[0] < max_tests and time.time() - t0 < wall:
        improved = False
        for cand in shrink(case):
            if tests[0] >= max_tests or time.time() - t0 > wall:
                break
            if still(cand):
                case = cand
                improved = True
                break
    return case, tests[0]


def case_size(case):
    return len(json.dumps(case, sort_keys=True))


# --------------------------------------------------------------------------
# worker side
# --------------------------------------------------------------------------
_PROP = None


def _chunk_worker(args):
    prop_id, verif_seed, tier, lo, hi, cap, want_digests = args
    faulthandler.dump_traceback_later(cap, exit=True)
    try:
        return _run_chunk(_PROP, prop_id, verif_seed, tier, lo, hi, want_digests)
    finally:
        faulthandler.cancel_dump_traceback_later()


class RunTimeout(BaseException):
    pass


def _on_alarm(signum, frame):
    raise RunTimeout()


def run_with_watchdog(prop, case, seconds):
    """prop.run(case) under a generous wall-clock cap (runs take milliseconds to a few seconds): a run that
    does not come back is reported as a violation of its own kind, never silently dropped"""
    import signal
    if not hasattr(signal, "SIGALRM") or getattr(prop, "OWN_WATCHDOG", False):
        return prop.run(case)
    old = signal.signal(signal.SIGALRM, _on_alarm)
    signal.setitimer(signal.ITIMER_REAL, seconds)
    try:
        return prop.run(case)
    except RunTimeout:
        out = Outcome()
        out.ev("no-termination")
        out.fail(prop.ID + ".no-termination", "wall-%ds" % seconds,
                 "the run did not finish within %d s of wall-clock time (runs of this property normally take "
                 "well under a second)" % seconds)
        return out
    finally:
        signal.setitimer(signal.ITIMER_REAL, 0)
        signal.signal(signal.SIGALRM, old)


def _run_chunk(prop, prop_id, verif_seed, tier, lo, hi, want_digests):
    agg = {
        "runs": 0, "evals": 0, "nontrivial": 0, "digests": set(), "nt_digests": set(),
        "fired": collections.Counter(), "probes": collections.Counter(),
        "violations": [], "samples": [], "sim_time": 0.0, "errors": [],
        "ordered": [], "sets": {},
    }
    seen = set()
    for i in range(lo, hi):
        seed = run_seed(prop_id, verif_seed, i)
        try:
            case = prop.gen(Streams(seed, i), tier)
            case["seed"] = seed
            case["index"] = i
            out = run_with_watchdog(prop, case, getattr(prop, "RUN_WALL_CAP", 300))
        except Exception as e:  # harness error: never a verdict
            agg["errors"].append("run %d seed %d: %s" % (i, seed, "".join(
                traceback.format_exception(type(e), e, e.__traceback__))[-1500:]))
            if len(agg["errors"]) > 5:
                break
            continue
        d = out.digest()
        agg["runs"] += 1
        agg["evals"] += out.evals
        agg["digests"].add(d)
        if out.nontrivial:
            agg["nontrivial"] += 1
            agg["nt_digests"].add(d)
        agg["fired"].update(out.fired)
        agg["probes"].update(out.probes)
        agg["sim_time"] += out.sim_time
        for k, v in out.sets.items():
            agg["sets"].setdefault(k, set()).update(v)
        if want_digests:
            agg["ordered"].append((i, d.hex()))
        if len(agg["samples"]) < 2 and out.nontrivial:
            agg["samples"].append(case)
        for clause, ident, detail, narrow in out.violations:
            if narrow is not None:
                narrow = dict(narrow, seed=seed, index=i)
            key = (clause, ident)
            if key in seen:
                continue
            seen.add(key)
            if len(agg["violations"]) < 40:
                agg["violations"].append(
                    {"clause": clause, "ident": ident, "detail": detail,
                     "case": narrow if narrow is not None else case})
    return agg


# --------------------------------------------------------------------------
# parent side
# --------------------------------------------------------------------------
def _merge(total, part):
    for k in ("runs", "evals", "nontrivial"):
        total[k] += part[k]
    total["sim_time"] += part["sim_time"]
    total["digests"] |= part["digests"]
    total["nt_digests"] |= part["nt_digests"]
    total["fired"].update(part["fired"])
    total["probes"].update(part["probes"])
    total["errors"].extend(part["errors"])
    total["ordered"].extend(part["ordered"])
    for k, v in part["sets"].items():
        total["sets"].setdefault(k, set()).update(v)
    if len(total["samples"]) < 3:
        total["samples"].extend(part["samples"][: 3 - len(total["samples"])])
    have = {(v["clause"], v["ident"]) for v in total["violations"]}
    for v in part["violations"]:
        if (v["clause"], v["ident"]) not in have:
            total["violations"].append(v)
            have.add((v["clause"], v["ident"]))


def run_batch(prop, tier, verif_seed, runs, workers, want_digests=False,
              chunk_cap=None):
    if chunk_cap is None:
        chunk_cap = getattr(prop, "CHUNK_WALL_CAP", {}).get(tier, 1800 if tier == "thorough" else 900)
    global _PROP
    _PROP = prop
    total = {
        "runs": 0, "evals": 0, "nontrivial": 0, "digests": set(), "nt_digests": set(),
        "fired": collections.Counter(), "probes": collections.Counter(),
        "violations": [], "samples": [], "sim_time": 0.0, "errors": [], "ordered": [],
        "sets": {},
    }
    nchunks = max(1, min(runs, workers * 8))
    bounds = [(runs * k // nchunks, runs * (k + 1) // nchunks) for k in range(nchunks)]
    bounds = [b for b in bounds if b[1] > b[0]]
    jobs = [(prop.ID, verif_seed, tier, lo, hi, chunk_cap, want_digests) for lo, hi in bounds]
    infra = []
    if workers <= 1:
        for j in jobs:
            _merge(total, _run_chunk(prop, *j[:5], want_digests))
    else:
        ctx = multiprocessing.get_context("fork")
        try:
            with ProcessPoolExecutor(max_workers=workers, mp_context=ctx) as ex:
                for part in ex.map(_chunk_worker, jobs):
                    _merge(total, part)
        except BrokenProcessPool as e:
            infra.append("worker died (wall cap or crash): %r" % (e,))
    total["ordered"].sort()
    total["infra"] = infra + total["errors"]
    return total


def write_replay(prop_id, case, clause, ident, detail, tag):
    d = os.path.join(VERIF_DIR, "replays")
    os.makedirs(d, exist_ok=True)
    path = os.path.join(d, "%s-%s.json" % (prop_id, tag))
    with open(path, "w") as f:
        json.dump({"property": prop_id, "clause": clause, "ident": ident,
                   "detail": detail, "case": case, "python_optimize": bool(sys.flags.optimize)},
                  f, indent=1, sort_keys=True)
    return path


def replay_in_fresh_process(prop_id, path):
    """True iff the replay file fails the same way in a fresh interpreter."""
    env = dict(os.environ)
    env["VERIF_NO_EVIDENCE"] = "1"
    # the replay has its own per-run watchdog (RUN_WALL_CAP of the property, 300 s by default): wait longer than
    # that, and never let a slow replay end the check with a traceback
    try:
        import importlib
        cap = getattr(importlib.import_module("props." + prop_id.lower()), "RUN_WALL_CAP", 300)
    except Exception:
        cap = 300
    try:
        r = subprocess.run([sys.executable, os.path.join(VERIF_DIR, "check"), prop_id,
                            "--replay", path], capture_output=True, text=True, env=env,
                           timeout=max(600, cap + 180))
    except subprocess.TimeoutExpired:
        return False
    return r.returncode == 1 and ("VIOLATION property=%s" % prop_id) in r.stdout


def replay(prop, path):
    with open(path) as f:
        doc = json.load(f)
    out = run_with_watchdog(prop, doc["case"], getattr(prop, "RUN_WALL_CAP", 300))
    want = (doc.get("clause"), doc.get("ident"))
    hit = [v for v in out.violations if (v[0], v[1]) == want] or out.violations
    if hit:
        c, i, d = hit[0][:3]
        print("replayed: clause=%s ident=%s\n  %s" % (c, i, d))
        print("VIOLATION property=%s replay=%s" % (prop.ID, path))
        return 1
    print("replay of %s did not reproduce a violation on this tree" % path)
    return 0


def finish(prop, tier, verif_seed, total, wall, workers, write_evidence=True):
    """Classify violations, minimise, print verdict lines, write evidence.
    Returns the exit code."""
    known = load_known()
    new = []
    known_hits = []
    for v in total["violations"]:
        k = match_known(known, prop.ID, v["clause"], v["ident"])
        if k:
            known_hits.append((k, v))
        else:
            new.append(v)
    printed = set()
    for k, v in known_hits:
        key = (k["clause"], k["ident"])
        if key not in printed:
            printed.add(key)
            print("KNOWN-FINDING: property=%s %s [%s / %s]" % (
                prop.ID, k.get("what", ""), k["clause"], k["ident"]))
    reported = []
    for n, v in enumerate(new):
        case = v["case"]
        tests = 0
        if n < 4:
            case, tests = minimise(prop, case, v["clause"], v["ident"])
        tag = "%d-%s" % (v["case"].get("seed", 0),
                         hashlib.sha256((v["clause"] + v["ident"]).encode()).hexdigest()[:6])
        path = write_replay(prop.ID, case, v["clause"], v["ident"], v["detail"], tag)
        ok = replay_in_fresh_process(prop.ID, path)
        if not ok and case is not v["case"]:
            # minimised form does not replay: fall back to the original case
            path = write_replay(prop.ID, v["case"], v["clause"], v["ident"], v["detail"], tag)
            ok = replay_in_fresh_process(prop.ID, path)
        if not ok:
            total["infra"].append("violation %s/%s did not replay in a fresh process "
                                  "(nondeterminism in the harness?)" % (v["clause"], v["ident"]))
            continue
        print("violation: clause=%s ident=%s (minimised with %d test runs, size %d -> %d)\n  %s"
              % (v["clause"], v["ident"], tests, case_size(v["case"]), case_size(case),
                 v["detail"]))
        print("VIOLATION property=%s replay=%s" % (prop.ID, path))
        reported.append(path)
    if write_evidence and not os.environ.get("VERIF_NO_EVIDENCE"):
        _write_evidence(prop, tier, verif_seed, total, wall, workers, len(reported),
                        [(k["clause"], k["ident"]) for k, _ in known_hits])
    for e in total["infra"][:10]:
        print("INFRA: " + e)
    if reported:
        return 1
    if total["infra"]:
        return 2
    return 0


def _write_evidence(prop, tier, verif_seed, total, wall, workers, nviol, known_printed):
    runs = total["runs"]
    cov = {
        "evaluations": total["evals"],
        "distinct_nontrivial": len(total["nt_digests"]),
        "rule": prop.RULE,
        "samples": total["samples"][:3],
        "simulated_runs": runs,
        "distinct_run_digests": len(total["digests"]),
        "runs_per_hour": int(runs / wall * 3600) if wall > 0 else 0,
        "seeds": "run i uses sha256('%s|%d|i')[:8], i in [0,%d)" % (prop.ID, verif_seed, runs),
        "simulated_time_s": round(total["sim_time"], 6),
        "faults_fired": dict(sorted(total["fired"].items())),
        "probes": dict(sorted(total["probes"].items())),
        "probes_at_zero": sorted(p for p in getattr(prop, "PROBES", [])
                                 if total["probes"].get(p, 0) == 0
                                 and not (tier == "quick" and p in getattr(prop, "THOROUGH_ONLY_PROBES", []))),
        "real_components": getattr(prop, "REAL", []),
        "stub_components": getattr(prop, "STUBS", []),
        "workers": workers,
        "known_findings_printed": sorted(set("%s / %s" % k for k in known_printed)),
        "infra": total["infra"][:10],
    }
    for k, v in sorted(total["sets"].items()):
        cov["distinct_" + k] = len(v)
    extra = getattr(prop, "evidence_extra", None)
    if extra:
        cov.update(extra(total))
    doc = {
        "property_id": prop.ID, "tier": tier, "seed": verif_seed,
        "level": prop.LEVEL, "coverage": cov,
        "assumptions": getattr(prop, "ASSUMPTIONS", []),
        "wall_s": round(wall, 3), "violations": nviol,
    }
    d = os.path.join(VERIF_DIR, "evidence")
    os.makedirs(d, exist_ok=True)
    tmp = os.path.join(d, prop.ID + ".json.tmp")
    with open(tmp, "w") as f:
        json.dump(doc, f, indent=1, sort_keys=True, default=str)
    os.replace(tmp, os.path.join(d, prop.ID + ".json"))
