"""Workload generation: JSON-serialisable specs of BF3/BEC2 file objects (the
reference model *is* the spec) and builders that turn a spec into real objects.
"""
import hashlib

from .core import rbytes

LEN_BIAS = [1, 2, 15, 16, 17, 31, 32, 33, 39, 40, 41, 47, 48, 49, 79, 80, 81, 255, 256, 257]
LEN_BIG = [4095, 4096, 4097]

KEY_ALPHA = "abcXYZ019 _-.äß€中\t()/\ufeff\u00a0"
VAL_ALPHA = "abcXYZ019 _-.:,;äß€中\t()/#\ufeff\u00a0"


# ---- blobs ---------------------------------------------------------------
def blob_spec(rng, max_len=600, allow_big=True):
    r = rng.random()
    if r < 0.45:
        n = rng.choice(LEN_BIAS)
    elif r < 0.50 and allow_big:
        n = rng.choice(LEN_BIG)
    else:
        n = rng.randint(1, max_len)
    n = min(n, max_len if not allow_big else max(max_len, 4097))
    r = rng.random()
    if r < 0.12:
        fill, tail0 = "zero", 0
    elif r < 0.55:
        fill, tail0 = "rand", min(n, rng.choice([1, 1, 2, 3, 4, 15, 16, 17, 20]))
    else:
        fill, tail0 = "rand", 0
    return {"len": n, "fill": fill, "tail0": tail0, "s": rng.getrandbits(32)}


def make_blob(b):
    if "hex" in b:
        return bytes.fromhex(b["hex"])
    n = b["len"]
    if b["fill"] == "zero":
        return bytes(n)
    out = bytearray()
    ctr = 0
    while len(out) < n:
        out += hashlib.sha256(b"%d|%d" % (b["s"], ctr)).digest()
        ctr += 1
    out = out[:n]
    # make sure the non-zero part really ends in a non-zero byte
    t = b.get("tail0", 0)
    if t:
        out[n - t:] = bytes(t)
    if n - t > 0 and out[n - t - 1] == 0:
        out[n - t - 1] = 0xA5
    return bytes(out)


def blob_shrinks(b):
    """smaller / simpler variants of a blob spec"""
    if "hex" in b:
        h = b["hex"]
        if len(h) > 2:
            yield {"hex": h[: (len(h) // 4) * 2 or 2]}
        return
    n = b["len"]
    for m in (1, 16, n // 2, n - 16, n - 1):
        if 1 <= m < n:
            yield dict(b, len=m, tail0=min(b["tail0"], m))
    if b["fill"] != "zero" and b["tail0"] > 1:
        yield dict(b, tail0=1)


# ---- keys ----------------------------------------------------------------
def session_key_spec(rng, allow_default=True):
    r = rng.random()
    if r < 0.2 and allow_default:
        return "00" * 16
    k = bytearray(rbytes(rng, 16))
    if k[0] == 0:
        k[0] = 1
    if r < 0.45:
        z = rng.choice([1, 1, 2, 3])
        k[16 - z:] = bytes(z)
    elif k[15] == 0:
        k[15] = 7
    return bytes(k).hex()


# ---- comments ------------------------------------------------------------
def comment_key(rng):
    n = rng.choice([0, 1, 1, 3, 6, 12])
    return "".join(rng.choice(KEY_ALPHA) for _ in range(n))


def comment_val(rng):
    n = rng.choice([0, 1, 3, 8, 20, 60])
    if rng.random() < 0.02:
        n = rng.choice([1000, 1023, 1024, 1025, 1500, 3000, 9000])     # release notes in a comment
    v = "".join(rng.choice(VAL_ALPHA) for _ in range(n))
    return v.strip()


def comments_spec(rng):
    n = rng.choice([0, 0, 1, 2, 3, 5])
    d = {}
    for _ in range(n):
        d[comment_key(rng)] = comment_val(rng)
    return [[k, v] for k, v in d.items()]


# ---- components ----------------------------------------------------------
def desc_spec(rng, oversize_ok=False):
    """ordered tag list; total TLV size <= 210 unless oversize_ok chooses more"""
    r = rng.random()
    ntags = rng.choice([0, 1, 1, 2, 3, 4, 8])
    tags = {}
    budget = 210
    if oversize_ok and r < 0.04:
        budget = 300
    used = 0
    for _ in range(ntags):
        t = rng.choice([rng.randint(0, 255), rng.choice([0xC1, 0xC3, 0xC4, 0xC5, 0xC6, 0xC7, 0xC8, 0xC9, 0x00, 0xFF])])
        if t == 0xC2 or t in tags:
            continue
        ln = rng.choice([0, 1, 1, 2, 4, 7, 16, 40, 100, 208, 253])
        if used + 2 + ln > budget:
            ln = max(0, budget - used - 2)
            if used + 2 + ln > budget:
                break
        tags[t] = rbytes(rng, ln).hex()
        used += 2 + ln
    return [[t, v] for t, v in tags.items()]


def desc_size(desc):
    return sum(2 + len(v) // 2 for _, v in desc)


def component_spec(rng, enc=False, max_len=600, oversize_ok=False):
    blob = blob_spec(rng, max_len)
    desc = desc_spec(rng, oversize_ok)
    if enc:
        # consistent encrypted component: ENC tag says SESSIONKEY
        pos = rng.randint(0, len(desc))
        desc.insert(pos, [0xC2, "02"])
        while desc_size(desc) > 210 and not oversize_ok:
            for j in range(len(desc) - 1, -1, -1):
                if desc[j][0] != 0xC2:
                    del desc[j]
                    break
    elif rng.random() < 0.12 and desc_size(desc) < 200:
        # a plain component may carry an ENC tag that does not say "session key" (plain, firmware key, ...)
        desc.insert(rng.randint(0, len(desc)), [0xC2, rng.choice(["00", "01", "01", "03", "", "0002", "ff"])])
    n = blob["len"]
    alen = None
    if rng.random() < 0.4:
        alen = rng.randint(1, n)
    return {"desc": desc, "blob": blob, "alen": alen, "enc": bool(enc)}


def bf3_spec(rng, max_comps=5, p_enc=0.0, max_len=600, oversize_ok=False, allow_many=True):
    ncomp = rng.choice([0, 1, 1, 1, 2, 2, 3, max_comps])
    comps = [component_spec(rng, enc=(rng.random() < p_enc), max_len=max_len,
                            oversize_ok=oversize_ok) for _ in range(ncomp)]
    spec = {"comments": comments_spec(rng), "components": comps}
    if rng.random() < 0.15:
        spec["container"] = rng.choice(["tuple", "generator"])
    r = rng.random()
    if r < 0.03 and comps:
        spec["alias_first"] = True
    elif r < 0.033 and allow_many:
        # a package with more than 255 components (directory entry indices beyond one byte)
        n = rng.randint(256, 270)
        spec["components"] = [{"desc": [] if i % 4 else [[0xC1, "%02x" % (i % 251)], [i % 200, "0102"]],
                               "blob": {"len": 1 + (i % 3) + (12 if i % 5 == 0 else 0), "fill": "rand", "tail0": 0,
                                        "s": i},
                               "alen": None if i % 5 else 3, "enc": False} for i in range(n)]
    return spec


def build_bf3(spec, env):
    comps = []
    for c in spec["components"]:
        desc = {int(t): bytes.fromhex(v) for t, v in c["desc"]}
        if c.get("tagless"):
            # marked after construction through the public attribute
            comp = env.bf3file.Bf3Component(desc, make_blob(c["blob"]), c["alen"])
            comp.encrypt_by_session_key = True
            comps.append(comp)
            continue
        if c["blob"].get("s", 0) % 2:
            # the published signature: (description, blob, actual_len, encrypt_by_session_key), all positional
            comps.append(env.bf3file.Bf3Component(desc, make_blob(c["blob"]), c["alen"], bool(c["enc"])))
        else:
            comps.append(env.bf3file.Bf3Component(desc, make_blob(c["blob"]), c["alen"],
                                                  encrypt_by_session_key=c["enc"]))
    if spec.get("alias_first") and comps:
        comps.append(comps[0])          # the very same component object listed a second time
    # legal argument kinds: the constructor takes any iterable of components
    kind = spec.get("container", "list")
    carg = {"list": comps, "tuple": tuple(comps), "generator": (c for c in comps)}[kind]
    obj = env.bf3file.Bf3File({k: v for k, v in spec["comments"]}, carg)
    if spec.get("config") is not None:
        obj.set_config(config_dict(spec["config"]), [bytes.fromhex(x) for x in spec.get("extra", [])])
    return obj


def model_of(spec):
    """What a read-back must return, as plain data."""
    comps = []
    for c in spec["components"]:
        blob = make_blob(c["blob"])
        alen = c["alen"] or len(blob)
        comps.append({"desc": [(int(t), bytes.fromhex(v)) for t, v in c["desc"]],
                      "blob": blob, "alen": alen, "enc": c["enc"]})
    if spec.get("alias_first") and comps:
        comps.append(dict(comps[0]))
    return {"comments": {k: v for k, v in spec["comments"]}, "components": comps}


def compare_bf3(model, obj):
    """None if obj (a real Bf3File) equals the model, else (category, detail)."""
    if dict(obj.comments) != model["comments"]:
        return "comments", "comments differ: %r != %r" % (dict(obj.comments), model["comments"])
    if len(obj.components) != len(model["components"]):
        return "component-count", "component count %d != %d" % (
            len(obj.components), len(model["components"]))
    for i, (m, c) in enumerate(zip(model["components"], obj.components)):
        if list(c.description.items()) != m["desc"]:
            return "tags", "component %d tags differ: %r != %r" % (
                i, list(c.description.items()), m["desc"])
        if c.actual_len != m["alen"]:
            return "declared-length", "component %d declared length %r != %r" % (
                i, c.actual_len, m["alen"])
        if bool(c.encrypt_by_session_key) != m["enc"]:
            return "encryption-flag", "component %d encryption flag %r != %r" % (
                i, c.encrypt_by_session_key, m["enc"])
        if m["enc"]:
            # encrypted content is defined up to the declared length (zero padding beyond)
            if bytes(c.blob[:m["alen"]]) != m["blob"][:m["alen"]]:
                return "decrypted-content", "component %d decrypted content differs (len %d vs %d)" % (
                    i, len(c.blob), len(m["blob"]))
        elif bytes(c.blob) != m["blob"]:
            return "payload", "component %d payload differs (len %d vs %d)" % (
                i, len(c.blob), len(m["blob"]))
    return None


def spec_shrinks(spec):
    """candidate simplifications of a bf3 spec (fewer comments/components/tags,
    shorter payloads)"""
    if spec["comments"]:
        yield dict(spec, comments=[])
        for i in range(len(spec["comments"])):
            yield dict(spec, comments=spec["comments"][:i] + spec["comments"][i + 1:])
    comps = spec["components"]
    for i in range(len(comps)):
        yield dict(spec, components=comps[:i] + comps[i + 1:])
    for i, c in enumerate(comps):
        if c["desc"]:
            for j in range(len(c["desc"])):
                if c["desc"][j][0] == 0xC2:
                    continue
                nc = dict(c, desc=c["desc"][:j] + c["desc"][j + 1:])
                yield dict(spec, components=comps[:i] + [nc] + comps[i + 1:])
        if c["alen"] is not None:
            nc = dict(c, alen=None)
            yield dict(spec, components=comps[:i] + [nc] + comps[i + 1:])
        for nb in blob_shrinks(c["blob"]):
            nc = dict(c, blob=nb)
            if nc["alen"] is not None:
                nc["alen"] = min(nc["alen"], nb.get("len", 1)) or None
            yield dict(spec, components=comps[:i] + [nc] + comps[i + 1:])


def desc_size_max(spec):
    return max([desc_size(c["desc"]) for c in spec["components"]] or [0])


# ---- configurations --------------------------------------------------------
def config_spec(rng, naming=None, code=None, bus=None, nvals=None):
    """JSON form of a configuration dictionary: [[key, value|None, hex|None], ...]"""
    ents = []
    n = rng.choice([1, 2, 3, 5, 9]) if nvals is None else nvals
    seen = set()
    for _ in range(n):
        k = rng.choice([0x1111, 0x0101, 0x0202, 0x7FFF, rng.randrange(0x0100, 0xFFFF)])
        v = rng.randrange(0, 0x7F)
        if (k, v) in seen or k == 0x0620 or (k, v) == (0x0202, 0x82):
            continue
        seen.add((k, v))
        ents.append([k, v, rbytes(rng, rng.choice([8, 9, 12, 16, 24, 40])).hex()])
    naming = rng.choice(["full", "full", "name-only", "none", "dev", "partial", "both", "dev-noname"]) if naming is None else naming
    if naming == "dev-noname":
        # device-settings version only: neither customer id nor a device-settings name
        ents.append([0x0620, 0x04, bytes([rng.randrange(100)]).hex()])
        if rng.random() < 0.5:
            ents.append([0x0620, 0x03, ""])
    if naming == "both":
        # project AND device settings identification, different versions
        pv = rng.randrange(100)
        ents.append([0x0620, 0x01, rng.randrange(1, 99999).to_bytes(4, "big").hex()])
        ents.append([0x0620, 0x05, rng.randrange(1, 9999).to_bytes(2, "big").hex()])
        ents.append([0x0620, 0x07, bytes([pv]).hex()])
        ents.append([0x0620, 0x04, bytes([(pv + rng.randrange(1, 99)) % 100]).hex()])
        if rng.random() < 0.5:
            ents.append([0x0620, 0x03, ("Dev%d" % rng.randrange(1000)).encode().hex()])
    if naming in ("full", "partial"):
        ents.append([0x0620, 0x01, rng.randrange(1, 99999).to_bytes(4, "big").hex()])
        if naming == "full":
            ents.append([0x0620, 0x05, rng.randrange(1, 9999).to_bytes(2, "big").hex()])
        if rng.random() < 0.7:
            ents.append([0x0620, 0x02, rng.randrange(0, 9999).to_bytes(2, "big").hex()])
        ents.append([0x0620, 0x07, bytes([rng.randrange(100)]).hex()])
        if rng.random() < 0.6 or naming == "partial":
            ents.append([0x0620, 0x06, ("Cfg%d" % rng.randrange(1000)).encode().hex()])
    elif naming == "name-only":
        ents.append([0x0620, 0x07, bytes([rng.randrange(100)]).hex()])
        ents.append([0x0620, 0x06, ("Name %d" % rng.randrange(1000)).encode().hex()])
    elif naming == "dev":
        ents.append([0x0620, 0x01, rng.randrange(1, 99999).to_bytes(4, "big").hex()])
        ents.append([0x0620, 0x04, bytes([rng.randrange(100)]).hex()])
        if rng.random() < 0.5:
            ents.append([0x0620, 0x03, ("Dev%d" % rng.randrange(1000)).encode().hex()])
    if (rng.random() < 0.5) if code is None else code:
        ents.append([0x0202, 0x82, rbytes(rng, 8).hex()])
    if (rng.random() < 0.3) if bus is None else bus:
        ents.append([0x0620, 0x20, "01"])
    rng.shuffle(ents)
    return ents


def config_dict(ents):
    return {(k, v): (bytes.fromhex(c) if c is not None else None) for k, v, c in ents}


def snapshot_bf3(obj):
    """model of a real Bf3File as plain data (content that must survive a round trip)"""
    comps = []
    for c in obj.components:
        comps.append({"desc": list(c.description.items()), "blob": bytes(c.blob),
                      "alen": c.actual_len, "enc": bool(c.encrypt_by_session_key)})
    return {"comments": dict(obj.comments), "components": comps}
