"""RefDir — an independent walker of the BF3 directory / BEC2 header, used only to
*locate* bytes (which field does offset p belong to, where is payload k), never
to judge acceptance.  Written from the layout in the property texts."""


def walk(binary):
    """Return (regions, info): regions is a sorted list of (start, end, name).
    Tolerates damaged input: the walk simply stops where the bytes end."""
    regions = []
    info = {"kind": None, "blocks": [], "entries": [], "payloads": []}
    try:
        _walk(binary, regions, info)
    except IndexError:
        pass
    regions.sort()
    return regions, info


def _walk(binary, regions, info):
    pos = 0
    if binary[:5] == b"BF3\0\0":
        info["kind"] = "bf3"
        regions.append((0, 5, "sig"))
        pos = 5
    elif binary[:5] == b"BEC2\0":
        info["kind"] = "bec2"
        regions.append((0, 5, "sig"))
        pos = 5
        while pos + 2 <= len(binary):
            tag, ln = binary[pos], binary[pos + 1]
            if tag == 0 and ln == 0:
                regions.append((pos, pos + 2, "ab-term"))
                pos += 2
                break
            regions.append((pos, pos + 1, "ab-tag"))
            regions.append((pos + 1, pos + 2, "ab-len"))
            regions.append((pos + 2, pos + 2 + ln, "ab-value-%02x" % tag))
            info["blocks"].append((tag, pos + 2, ln))
            pos += 2 + ln
    else:
        return
    info["dir_start"] = pos
    regions.append((pos, pos + 4, "dir-size"))
    dsize = int.from_bytes(binary[pos:pos + 4], "big")
    dend = pos + 4 + dsize
    pos += 4
    k = 0
    while pos < dend:
        el = binary[pos]
        if el == 0:
            regions.append((pos, pos + 1, "sentinel"))
            pos += 1
            break
        e0 = pos + 1
        regions.append((pos, pos + 1, "entry-len"))
        regions.append((e0, e0 + 4, "entry-adr"))
        regions.append((e0 + 4, e0 + 8, "entry-total-len"))
        regions.append((e0 + 8, e0 + 12, "entry-declared-len"))
        regions.append((e0 + 12, e0 + 28, "entry-payload-mac"))
        regions.append((e0 + 28, e0 + 29, "entry-desc-len"))
        dl = binary[e0 + 28]
        regions.append((e0 + 29, e0 + 29 + dl, "entry-tags"))
        regions.append((e0 + 29 + dl, e0 + 29 + dl + 16, "entry-mac"))
        info["entries"].append({
            "index": k, "start": pos, "len": el,
            "adr": int.from_bytes(binary[e0:e0 + 4], "big"),
            "total": int.from_bytes(binary[e0 + 4:e0 + 8], "big"),
            "declared": int.from_bytes(binary[e0 + 8:e0 + 12], "big"),
            "tags_off": e0 + 29, "tags_len": dl,
        })
        pos = e0 + el
        k += 1
    for k, e in enumerate(info["entries"]):
        last = k == len(info["entries"]) - 1
        regions.append((e["adr"], e["adr"] + e["total"], "payload-last" if last else "payload"))
        info["payloads"].append((e["adr"], e["total"]))


def region_of(regions, pos):
    for s, e, name in regions:
        if s <= pos < e:
            return name
    return "beyond"


def interesting_positions(regions):
    """offsets of structural fields (lengths, sizes, first/last bytes of regions)"""
    out = []
    for s, e, name in regions:
        if e <= s:
            continue
        if name in ("dir-size", "entry-len", "entry-adr", "entry-total-len",
                    "entry-declared-len", "entry-desc-len", "sentinel", "ab-tag", "ab-len",
                    "ab-term", "sig"):
            out.extend(range(s, e))
        else:
            out.extend({s, e - 1})
    return sorted(set(out))


def tags_of(binary, entry):
    """[(tag, value)] of one entry, for C06"""
    out = []
    p = entry["tags_off"]
    end = p + entry["tags_len"]
    while p + 2 <= end:
        t, ln = binary[p], binary[p + 1]
        out.append((t, binary[p + 2:p + 2 + ln]))
        p += 2 + ln
    return out
