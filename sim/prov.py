"""E-prov: BEC2 provisioning simulation pieces — the RNG stub behind the seam, the
key-generation observer, block/encryptor builders from JSON specs and the
independent *device model* that unwraps auth blocks with RefAES/RefCRC/RefP256.
"""
import hashlib
import random

from . import refaes, refcrc, refp256
from .core import rbytes

# published recipient keys per selector, transcribed from the property/appnote text
# (SPKI DER, P-256).  Used by the device model for default-recipient blocks.
PUBLISHED = {
    0: "057B565D976A3306E8BD094A4671138198707D0BB67C88A45E8F375DCB1416C9"
       "519884E2109A02792072AF237911A612EB16213836E90FDD421B479EBD98158E",
    1: "D7B1B5CBD0587AE22E91AEE229B9534A920C905F58513CB4391F8C3F5A1B464C"
       "CC05917E5C59C3AE3E1197992B2FBB24F34238D1E4BBC62DC0DBC8F36903E92B",
    2: "0CD731ED3730E53F7244EE71D8D54F5300885FF645EC8FD27FA3D9D1C4629FAF"
       "6536A1F5B46F0C7CA923EE284C115B9D6514EDEF9AA1FDBF1F54030B49AEF8A6",
    3: "B6BC3D318417AE9099A228C29A0DE85AC053EAB5B3AA508BF4A438BF15FF8B55"
       "1A04004051801A3D08A6055715C9DFF38FD2EFAA311C8154BD9A302597C86053",
}


class SimRng:
    """RNG stub: seeded, never repeats a byte string, logs every draw with its
    call-site class; a script can force particular draws (edge classes)."""

    def __init__(self, seed, script=None):
        self.rng = random.Random(seed)
        self.script = [list(x) for x in (script or [])]
        self.draws = []
        self.seen = set()

    def reseed_for_child(self, n):
        """after a fork the operating system's RNG gives parent and child independent streams"""
        self.rng = random.Random((self.rng.getrandbits(64) << 8) ^ (n + 1))

    def __call__(self, n, site):
        b = None
        for i, (s, h) in enumerate(self.script):
            if s == site and len(h) == 2 * n:
                b = bytes.fromhex(h)
                del self.script[i]
                break
        forced = b is not None
        while b is None or (not forced and n >= 8 and b in self.seen):
            b = rbytes(self.rng, n)
        self.seen.add(b)
        self.draws.append((site, n, b))
        return b


class KeyGenObserver:
    """Wraps the registered private-key class through the native
    register_PrivateEccKey seam so that every generated key object is observed."""

    def __init__(self, env):
        self.env = env
        self.generated = []  # (private scalar, raw public point)
        obs = self

        class Observed(env.REAL_PRIV):
            @classmethod
            def generate(cls):
                k = super().generate()
                d = int(k.private_key.privkey.secret_multiplier)
                obs.generated.append((d, k.public_key.to_raw_bin_fmt()))
                return k

        self.cls = Observed

    def install(self):
        self.env.crypto.register_PrivateEccKey(self.cls)


# ---------------------------------------------------------------- specs ---
def scalar_spec(rng):
    r = rng.random()
    if r < 0.25:
        return rng.choice([1, 2, refp256.N - 2, refp256.N - 1])
    return rng.randrange(1, refp256.N)


def blocks_spec(rng, need_openable=True):
    """non-empty ordered subset of block kinds"""
    kinds = ["cust", "ecc", "upd"]
    rng.shuffle(kinds)
    kinds = kinds[: rng.choice([1, 1, 2, 2, 3])]
    out = []
    for k in kinds:
        if k == "cust":
            ck = rbytes(rng, 10).hex() if rng.random() < 0.5 else None
            out.append({"t": "cust", "aes": rbytes(rng, 16).hex(), "ck": ck})
        elif k == "ecc":
            recip = scalar_spec(rng) if rng.random() < 0.7 else None
            out.append({"t": "ecc", "sel": rng.randrange(4), "recip": recip})
        else:
            out.append({"t": "upd", "code": rbytes(rng, 8).hex(),
                        "ver": rng.choice([0, 1, 9, 99, 255, rng.randrange(256)])})
    if need_openable and all(b["t"] == "ecc" and b["recip"] is None for b in out):
        out[0]["recip"] = scalar_spec(rng)
    return out


def session_key_script(rng, blocks):
    """sometimes force the drawn session key into a 1-in-256 class"""
    r = rng.random()
    if r < 0.25:
        k = bytearray(rbytes(rng, 16))
        z = rng.choice([1, 1, 2, 3])
        k[16 - z:] = bytes(z)
        return bytes(k).hex()
    if r < 0.5:
        # CRC of the wrapped payload has a 0x00 low (or both) byte
        want_both = rng.random() < 0.15
        for _ in range(200000):
            k = rbytes(rng, 16)
            for b in blocks:
                if b["t"] == "cust":
                    c = refcrc.crc16((bytes.fromhex(b["ck"]) if b["ck"] else bytes(10)) + k)
                elif b["t"] == "upd":
                    c = refcrc.crc16(k + bytes([b["ver"]]))
                else:
                    continue
                if (c == 0) if want_both else (c & 0xFF == 0 or c >> 8 == 0):
                    return k.hex()
            if want_both and _ > 60000:
                want_both = False
    return None


def make_priv(env, d):
    return env.REAL_PRIV.create_from_der_fmt(refp256.sec1_private_der(d))


_DECOY_CACHE = {}


def decoys_for(env, sel):
    """a host's key store: ECC (de)cryptors for the *other* key selectors, unrelated keys"""
    out = []
    for s in range(4):
        if s == sel:
            continue
        priv = make_priv(env, 777000 + s)
        out.append((env.bec2file.EccEncryptor(s, priv.public_key), env.bec2file.EccDecryptor(s, priv)))
    return out


def build_blocks(blocks, env, decoys=False):
    """-> (auth_blocks, writer ext_encryptors, {block index: decryptor}); with decoys the writer
    list starts with ECC encryptors for the other key selectors (as a host with a key store has)"""
    bf = env.bec2file
    abs_, wenc, dec = [], [], {}
    if decoys:
        for b in blocks:
            if b["t"] == "ecc":
                wenc.extend(e for e, _ in decoys_for(env, b["sel"]))
    for i, b in enumerate(blocks):
        if b["t"] == "cust":
            ck = bytes.fromhex(b["ck"]) if b["ck"] else None
            e = bf.SoftwareCustKeyEncryptor(bytes.fromhex(b["aes"]), ck, 0 if ck else None)
            abs_.append(bf.InitCustKeyAuthBlock())
            wenc.append(e)
            dec[i] = e
        elif b["t"] == "ecc":
            abs_.append(bf.InitEccAuthBlock(b["sel"]))
            if b["recip"] is not None:
                priv = make_priv(env, b["recip"])
                wenc.append(bf.EccEncryptor(b["sel"], priv.public_key))
                dec[i] = bf.EccDecryptor(b["sel"], priv)
        else:
            code = bytes.fromhex(b["code"])
            abs_.append(bf.UpdateAuthBlock(code, b["ver"]))
            dec[i] = bf.ConfigSecurityCodeEncryptor(code)
    return abs_, wenc, dec


# --------------------------------------------------------- device model ---
def parse_header(binary):
    """[(tag, value)] of a BEC2 header and the offset where the body starts"""
    assert binary[:5] == b"BEC2\0"
    pos = 5
    out = []
    while True:
        tag, ln = binary[pos], binary[pos + 1]
        pos += 2
        if tag == 0 and ln == 0:
            break
        out.append((tag, binary[pos:pos + ln]))
        pos += ln
    return out, pos


def aes_container_open(key, value):
    """Independent unwrap of the EncryptBuffer container: returns (payload, problems)."""
    probs = []
    if len(value) % 16 or not value:
        return None, ["container length %d is not a positive multiple of 16" % len(value)]
    pt = refaes.cbc_dec(key, bytes(16), value)
    if pt[:1] != b"B":
        probs.append("marker is not 'B'")
        return None, probs
    n = pt[1]
    if n < 2 or n > len(pt) - 3:
        probs.append("length byte %d out of range" % n)
        return None, probs
    pad = pt[2:len(pt) - n]
    if not (1 <= len(pad) <= 16) or any(pad):
        probs.append("padding is not 1..16 zero bytes")
    payload = pt[len(pt) - n:-2]
    crc = int.from_bytes(pt[-2:], "big")
    if refcrc.crc16(payload) != crc:
        probs.append("CRC mismatch")
    return payload, probs


def device_unwrap(block_spec, tag, value, eph_scalar=None):
    """Session key recovered by the device model from one auth block, or raises
    ValueError with the reason.  Lenient about framing details (those are C08):
    it needs the key at the documented offset after an independent decrypt."""
    t = block_spec["t"]
    if t == "cust":
        if tag != 0x01:
            raise ValueError("tag %02x for a customer-key block" % tag)
        payload, probs = aes_container_open(bytes.fromhex(block_spec["aes"]), value)
        if payload is None:
            raise ValueError("; ".join(probs))
        if len(payload) != 26:
            raise ValueError("customer-key payload is %d bytes" % len(payload))
        if block_spec["ck"] and payload[:10] != bytes.fromhex(block_spec["ck"]):
            raise ValueError("customer key not in its slot")
        return payload[10:26]
    if t == "upd":
        if tag != 0x02:
            raise ValueError("tag %02x for an update block" % tag)
        key = hashlib.sha256(bytes.fromhex(block_spec["code"])).digest()[:16]
        payload, probs = aes_container_open(key, value)
        if payload is None:
            raise ValueError("; ".join(probs))
        if len(payload) != 17:
            raise ValueError("update payload is %d bytes" % len(payload))
        if payload[16] != block_spec["ver"]:
            raise ValueError("version byte %d != %d" % (payload[16], block_spec["ver"]))
        return payload[:16]
    if t == "ecc":
        if tag != 0x03:
            raise ValueError("tag %02x for an ECC block" % tag)
        if len(value) != 82:
            raise ValueError("ECC block is %d bytes, expected 82" % len(value))
        if value[0] != block_spec["sel"]:
            raise ValueError("selector byte %d != %d" % (value[0], block_spec["sel"]))
        if value[1] != 4:
            raise ValueError("point marker %02x" % value[1])
        pt = refp256.parse_raw(value[2:66])
        if not refp256.on_curve(pt):
            raise ValueError("ephemeral point is not on P-256")
        if block_spec["recip"] is not None:
            k = refp256.ecies_key(block_spec["recip"], pt)
        else:
            if eph_scalar is None:
                raise ValueError("no ephemeral scalar observed")
            if refp256.mul(eph_scalar, refp256.G) != pt:
                raise ValueError("ephemeral point != d*G for the observed scalar")
            q = refp256.parse_raw(bytes.fromhex(PUBLISHED[block_spec["sel"]]))
            k = refp256.ecies_key(eph_scalar, q)
        return refaes.cbc_dec(k, bytes(16), value[66:82])
    raise ValueError("unknown block spec")
