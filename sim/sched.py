"""E-sched: a deterministic scheduler for real threads.

Exactly one simulated thread runs at a time (baton passing over private
semaphores); the simulator decides who runs next at *points*: line events (and,
on request, instruction events) of the monitored source files — delivered by
sys.monitoring in the executing thread — every SimLock operation, every
sim.sleep and explicit yields of the workload.  A schedule is explicit data:
a set of global step numbers at which the running thread is pre-empted and a
list of choice numbers consumed whenever there is more than one candidate to
run next.  Same code + same schedule = same execution.
"""
import gc
import sys
import threading as _real_threading
import types

_mon = sys.monitoring
TOOL = 4  # a free tool id (0-5); 3.12: DEBUGGER 0, COVERAGE 1, PROFILER 2, OPTIMIZER 5


class SimAbort(BaseException):
    """Raised inside simulated threads to unwind them when a run is aborted."""


class SimThread:
    def __init__(self, tid, fn, name):
        self.tid = tid
        self.fn = fn
        self.name = name
        self.sem = _real_threading.Semaphore(0)
        self.state = "runnable"   # runnable | blocked | sleeping | done
        self.blocked_on = None
        self.wake_at = None
        self.result = None
        self.exc = None
        self.steps = 0
        self.thread = None
        self.phase = "idle"       # ghost state maintained by workloads
        self.role = None


class SimLock:
    """Stands in for threading.Lock inside the code under test."""

    def __init__(self, sched, name=None):
        self.sched = sched
        self.name = name or "L%d" % len(sched.locks)
        self.owner = None   # tid of the thread that acquired it (informational: release by
        self.locked_ = False  # another thread is legal for a Lock)
        sched.locks.append(self)

    def acquire(self, blocking=True, timeout=-1):
        s = self.sched
        me = s.me()
        s.point("acquire", self)
        while self.locked_:
            if not blocking:
                return False
            s.op(me, "park", self)
            s.block(me, self)
        self.locked_ = True
        self.owner = me.tid
        s.op(me, "acq", self)
        return True

    def release(self):
        s = self.sched
        me = s.me()
        if not self.locked_:
            s.op(me, "bad-release", self)
            raise RuntimeError("release unlocked lock")
        self.locked_ = False
        self.owner = None
        s.op(me, "rel", self)
        for t in s.threads:
            if t.state == "blocked" and t.blocked_on is self:
                t.state = "runnable"
                t.blocked_on = None
        s.point("release", self)

    def locked(self):
        return self.locked_

    __enter__ = acquire

    def __exit__(self, *a):
        self.release()


class ThreadingShim:
    """module-like object: `_rwlock.threading = ThreadingShim(sched)`"""

    def __init__(self, sched):
        self._sched = sched

    def Lock(self):
        return SimLock(self._sched)

    def __getattr__(self, name):
        return getattr(_real_threading, name)


def nested_code_objects(co):
    """co and every code object nested in it, in a stable order"""
    out = [co]
    for c in co.co_consts:
        if isinstance(c, types.CodeType):
            out.extend(nested_code_objects(c))
    return out


def code_objects_of(filenames):
    """every code object whose co_filename is one of filenames"""
    want = set(filenames)
    out = []
    seen = set()

    def add(co):
        if id(co) in seen:
            return
        seen.add(id(co))
        if co.co_filename in want:
            out.append(co)
        for c in co.co_consts:
            if isinstance(c, types.CodeType):
                add(c)

    for o in gc.get_objects():
        if isinstance(o, types.FunctionType):
            add(o.__code__)
        elif isinstance(o, types.CodeType):
            add(o)
    out.sort(key=lambda c: (c.co_filename, c.co_firstlineno, c.co_name))
    return out


class Monitor:
    """Owns the sys.monitoring tool: LINE events on `line_codes`, INSTRUCTION events on
    `instr_codes`.  One per process, (re)attached to the scheduler of the current run."""

    _inst = None

    def __init__(self):
        self.sched = None
        self.line_codes = []
        self.instr_codes = []
        try:
            _mon.use_tool_id(TOOL, "verif-sched")
        except ValueError:
            pass
        _mon.register_callback(TOOL, _mon.events.LINE, self._on_line)
        _mon.register_callback(TOOL, _mon.events.INSTRUCTION, self._on_instr)

    @classmethod
    def get(cls):
        if cls._inst is None:
            cls._inst = Monitor()
        return cls._inst

    def configure(self, line_codes, instr_codes=(), key=None):
        if key is not None and key == getattr(self, "key", None):
            return
        self.key = key
        for co in self.line_codes + self.instr_codes:
            _mon.set_local_events(TOOL, co, 0)
        self.line_codes = list(line_codes)
        self.instr_codes = list(instr_codes)
        instr = set(map(id, self.instr_codes))
        for co in self.line_codes:
            if id(co) not in instr:
                _mon.set_local_events(TOOL, co, _mon.events.LINE)
        for co in self.instr_codes:
            _mon.set_local_events(TOOL, co, _mon.events.INSTRUCTION)

    def _on_line(self, code, line):
        s = self.sched
        if s is not None and s.active:
            t = s.by_ident.get(_real_threading.get_ident())
            if t is not None:
                s.point("line", code)

    def _on_instr(self, code, offset):
        s = self.sched
        if s is not None and s.active:
            t = s.by_ident.get(_real_threading.get_ident())
            if t is not None:
                s.point("instr", None)


class Sched:
    def __init__(self, preempt=(), choices=(), max_steps=2_000_000, on_step=None):
        self.threads = []
        self.by_ident = {}
        self.locks = []
        self.lock_ops = []        # (tid, op, lock name)
        self.preempt = set(int(p) for p in preempt)
        self.preempt_local = set()   # (tid, thread-local step)
        self.choices = list(choices)
        self.nchoice = 0
        self.step = 0
        self.max_steps = max_steps
        self.now = 0.0
        self.current = None
        self.active = False
        self.aborted = None       # None | "deadlock" | "step-cap" | "invariant"
        self.decisions = []       # (step, from tid, to tid, why)
        self.on_step = on_step
        self.ctl = _real_threading.Semaphore(0)
        self.violation = None
        self.switches = 0
        self.clock_jumps = 0
        self.on_stable = None
        self.wall_cap = 120.0
        self.preempt_stacks = []
        self.shallow_files = None     # file names whose line events are recorded as "API-level" steps
        self.shallow_steps = []       # (tid, thread-local step) of such events
        self.ready = _real_threading.Semaphore(0)

    # ---- construction ----
    def spawn(self, fn, name=None, role=None):
        t = SimThread(len(self.threads), fn, name or "T%d" % len(self.threads))
        t.role = role
        self.threads.append(t)
        return t

    def me(self):
        return self.by_ident[_real_threading.get_ident()]

    def op(self, me, what, lock):
        if not self.aborted:
            self.lock_ops.append((me.tid, what, lock.name))

    # ---- decisions ----
    def _choose(self, cands, why):
        if len(cands) == 1:
            return cands[0]
        if self.nchoice < len(self.choices):
            c = self.choices[self.nchoice]
        else:
            c = 0
        self.nchoice += 1
        return cands[c % len(cands)]

    def _runnable(self, exclude=None):
        return [t for t in self.threads if t.state == "runnable" and t is not exclude]

    def _next_after_stop(self, me, why):
        """me cannot continue (blocked / sleeping / done): pick who runs, advancing the
        virtual clock when only sleepers remain; None when nobody can ever run."""
        while True:
            cands = self._runnable()
            if cands:
                return self._choose(cands, why)
            sleepers = [t for t in self.threads if t.state == "sleeping"]
            if not sleepers:
                return None
            if self.on_stable is not None:
                self.on_stable(self)
            wake = min(t.wake_at for t in sleepers)
            self.now = wake
            self.clock_jumps += 1
            for t in sleepers:
                if t.wake_at <= wake:
                    t.state = "runnable"
                    t.wake_at = None

    def _handoff(self, me, nxt, why):
        self.decisions.append((self.step, me.tid, nxt.tid, why))
        self.switches += 1
        self.current = nxt
        nxt.sem.release()

    def _park(self, me):
        me.sem.acquire()
        if self.aborted:
            raise SimAbort()

    # ---- points ----
    def point(self, kind, obj):
        if not self.active:
            return
        me = self.current
        self.step += 1
        me.steps += 1
        if self.shallow_files is not None and kind == "line" and obj is not None \
                and obj.co_filename in self.shallow_files:
            self.shallow_steps.append((me.tid, me.steps))
        if self.on_step is not None:
            v = self.on_step(self, me, kind)
            if v:
                self.violation = v
                self._abort("invariant")
                raise SimAbort()
        if self.step > self.max_steps:
            self._abort("step-cap")
            raise SimAbort()
        if self.step in self.preempt or (self.preempt_local and (me.tid, me.steps) in self.preempt_local):
            cands = self._runnable(exclude=me)
            if cands:
                nxt = self._choose(cands, "preempt")
                # where the pre-empted thread was: names of the frames under test on its stack
                names = []
                f = sys._getframe(1)
                while f is not None and len(names) < 24:
                    names.append(f.f_code.co_name)
                    f = f.f_back
                self.preempt_stacks.append(tuple(names))
                self._handoff(me, nxt, "preempt")
                self._park(me)

    def yield_(self):
        self.point("yield", None)

    def block(self, me, lock):
        me.state = "blocked"
        me.blocked_on = lock
        nxt = self._next_after_stop(me, "block")
        if nxt is None:
            self._abort("deadlock")
            raise SimAbort()
        if nxt is me:   # cannot happen: me is blocked
            return
        self._handoff(me, nxt, "block")
        self._park(me)

    def sleep(self, d):
        me = self.me()
        self.point("sleep", None)
        me.state = "sleeping"
        me.wake_at = self.now + d
        nxt = self._next_after_stop(me, "sleep")
        if nxt is me:
            return
        if nxt is None:
            self._abort("deadlock")
            raise SimAbort()
        self._handoff(me, nxt, "sleep")
        self._park(me)

    def _abort(self, why):
        if self.aborted:
            return
        self.aborted = why
        self.active = False
        for t in self.threads:
            if t is not self.current and t.state != "done":
                t.sem.release()
        self.ctl.release()

    # ---- thread bodies ----
    def _body(self, t):
        self.by_ident[_real_threading.get_ident()] = t
        self.ready.release()
        t.sem.acquire()
        try:
            if self.aborted:
                raise SimAbort()
            t.result = t.fn()
        except SimAbort:
            t.state = "done"
            return
        except BaseException as e:  # noqa
            t.exc = e
        t.state = "done"
        if self.aborted:
            return
        nxt = self._next_after_stop(t, "finish")
        if nxt is None:
            if any(x.state != "done" for x in self.threads):
                self._abort("deadlock")
            else:
                self.active = False
                self.ctl.release()
            return
        self._handoff(t, nxt, "finish")

    def run(self, first=None):
        mon = Monitor.get()
        mon.sched = self
        for t in self.threads:
            t.thread = _real_threading.Thread(target=self._body, args=(t,), daemon=True)
            t.thread.start()
        for _ in self.threads:
            self.ready.acquire()
        start = self._choose(self._runnable(), "start") if first is None else self.threads[first]
        self.current = start
        self.active = True
        self.decisions.append((0, -1, start.tid, "start"))
        start.sem.release()
        if not self.ctl.acquire(timeout=self.wall_cap):
            # some thread is stuck outside the simulator's control (blocked on a real primitive)
            self.aborted = self.aborted or "hang"
        self.active = False
        for t in self.threads:
            t.thread.join(timeout=30 if self.aborted != "hang" else 0.01)
        mon.sched = None
        return self
