"""RefP256 — affine short-Weierstrass arithmetic on NIST P-256 with modular inverses,
double-and-add, on-curve test, and the ECIES unwrap used by BEC2 ECC blocks.
Written from SEC 1 / FIPS 186; imports nothing from /repo."""
import hashlib

P = 0xFFFFFFFF00000001000000000000000000000000FFFFFFFFFFFFFFFFFFFFFFFF
A = P - 3
B = 0x5AC635D8AA3A93E7B3EBBD55769886BC651D06B0CC53B0F63BCE3C3E27D2604B
N = 0xFFFFFFFF00000000FFFFFFFFFFFFFFFFBCE6FAADA7179E84F3B9CAC2FC632551
G = (0x6B17D1F2E12C4247F8BCE6E563A440F277037D812DEB33A0F4A13945D898C296,
     0x4FE342E2FE1A7F9B8EE7EB4A7C0F9E162BCE33576B315ECECBB6406837BF51F5)
INF = None

SPKI_PREFIX = bytes.fromhex("3059301306072A8648CE3D020106082A8648CE3D03010703420004")


def on_curve(pt, p=P, a=A, b=B):
    if pt is INF:
        return True
    x, y = pt
    if not (0 <= x < p and 0 <= y < p):
        return False
    return (y * y - (x * x * x + a * x + b)) % p == 0


def add(p1, p2, p=P, a=A):
    if p1 is INF:
        return p2
    if p2 is INF:
        return p1
    x1, y1 = p1
    x2, y2 = p2
    if x1 == x2:
        if (y1 + y2) % p == 0:
            return INF
        lam = (3 * x1 * x1 + a) * pow(2 * y1, -1, p) % p
    else:
        lam = (y2 - y1) * pow(x2 - x1, -1, p) % p
    x3 = (lam * lam - x1 - x2) % p
    y3 = (lam * (x1 - x3) - y1) % p
    return (x3, y3)


def mul(k, pt, p=P, a=A):
    r = INF
    q = pt
    while k > 0:
        if k & 1:
            r = add(r, q, p, a)
        q = add(q, q, p, a)
        k >>= 1
    return r


def pub_raw(d):
    x, y = mul(d, G)
    return x.to_bytes(32, "big") + y.to_bytes(32, "big")


def parse_raw(raw):
    if len(raw) != 64:
        return None
    return (int.from_bytes(raw[:32], "big"), int.from_bytes(raw[32:], "big"))


def parse_spki(der):
    if len(der) != 91 or der[:27] != SPKI_PREFIX:
        raise ValueError("not a P-256 SPKI")
    return parse_raw(der[27:])


def ecdh_x(d, pt):
    s = mul(d, pt)
    assert s is not INF
    return s[0].to_bytes(32, "big")


def ecies_key(d, pt):
    """AES key of a BEC2 ECC block: SHA-256 of the shared x coordinate, first 16 bytes."""
    return hashlib.sha256(ecdh_x(d, pt)).digest()[:16]


def sec1_private_der(d):
    """Minimal SEC1 ECPrivateKey with named curve prime256v1 and public key."""
    pub = b"\x04" + pub_raw(d)
    body = (b"\x02\x01\x01" + b"\x04\x20" + d.to_bytes(32, "big")
            + b"\xa0\x0a\x06\x08\x2a\x86\x48\xce\x3d\x03\x01\x07"
            + b"\xa1\x44\x03\x42\x00" + pub)
    assert len(body) < 128
    return b"\x30" + bytes([len(body)]) + body


def selftest():
    assert on_curve(G)
    assert mul(N, G) is INF
    assert mul(N - 1, G) == (G[0], P - G[1])
    # 2G (published test value)
    assert mul(2, G)[0] == 0x7CF27B188D034F7E8A52380304B51AC3C08969E277F21B35A60B48FC47669978
    assert add(mul(5, G), mul(7, G)) == mul(12, G)
    return True
