"""setup and self-tests of the machinery: reference models against vectors and
openssl, determinism of the simulation, sensitivity (mutants / seeded changes)."""
import glob
import json
import os
import shutil
import subprocess
import sys
import tempfile
import time
from concurrent.futures import ThreadPoolExecutor

from . import core

CHECK = os.path.join(core.VERIF_DIR, "check")


def _openssl():
    return shutil.which("openssl")


def _ref_vs_openssl(n=6):
    """cross-check RefAES-CBC and RefP256 ECDH against the openssl binary"""
    import random
    from . import refaes, refp256
    ossl = _openssl()
    if not ossl:
        return "openssl binary absent: cross-check skipped (embedded vectors still checked)"
    r = random.Random(1234)
    for _ in range(n):
        key = bytes(r.getrandbits(8) for _ in range(r.choice([16, 24, 32])))
        iv = bytes(r.getrandbits(8) for _ in range(16))
        data = bytes(r.getrandbits(8) for _ in range(16 * r.randint(1, 5)))
        p = subprocess.run([ossl, "enc", "-aes-%d-cbc" % (len(key) * 8), "-nopad", "-K", key.hex(),
                            "-iv", iv.hex()], input=data, capture_output=True, timeout=30)
        assert p.returncode == 0, p.stderr
        assert p.stdout == refaes.cbc_enc(key, iv, data), "RefAES-CBC != openssl"
    d = tempfile.mkdtemp(prefix="verif-ossl-")
    try:
        for i in range(3):
            da = r.randrange(1, refp256.N)
            db = r.randrange(1, refp256.N)
            fa = os.path.join(d, "a.der")
            fb = os.path.join(d, "b.der")
            fbp = os.path.join(d, "bpub.der")
            open(fa, "wb").write(refp256.sec1_private_der(da))
            open(fb, "wb").write(refp256.sec1_private_der(db))
            open(fbp, "wb").write(refp256.SPKI_PREFIX + refp256.pub_raw(db))
            p = subprocess.run([ossl, "pkeyutl", "-derive", "-keyform", "DER", "-inkey", fa, "-peerform",
                                "DER", "-peerkey", fbp], capture_output=True, timeout=30)
            assert p.returncode == 0, p.stderr
            assert p.stdout == refp256.ecdh_x(da, refp256.mul(db, refp256.G)), "RefP256 ECDH != openssl"
    finally:
        shutil.rmtree(d, ignore_errors=True)
    return "RefAES-CBC (%d samples) and RefP256 ECDH (3 samples) agree with %s" % (n, ossl)


def setup():
    t0 = time.time()
    from . import refaes, refcrc, refp256
    refaes.selftest()
    refcrc.selftest()
    refp256.selftest()
    print("reference models: FIPS-197 / SP 800-38A / CRC check value / P-256 vectors ok")
    print(_ref_vs_openssl())
    from . import env  # noqa: F401  (imports the code under test once)
    print("code under test imported from", env.REPO)
    os.makedirs(os.path.join(core.VERIF_DIR, "evidence"), exist_ok=True)
    os.makedirs(os.path.join(core.VERIF_DIR, "replays"), exist_ok=True)
    rc = determinism(sample=40, quick=True)
    print("setup done in %.1fs" % (time.time() - t0))
    return rc


def _claimed():
    with open(os.path.join(core.VERIF_DIR, "tools", "claimed.json")) as f:
        return json.load(f)


def _digest(prop, runs, workers, hashseed, seed):
    env = dict(os.environ)
    env["PYTHONHASHSEED"] = str(hashseed)
    env["PYTHONDONTWRITEBYTECODE"] = "1"
    p = subprocess.run([sys.executable, CHECK, prop, "--digest", "--runs", str(runs), "--workers",
                        str(workers), "--seed", str(seed)], capture_output=True, text=True, env=env,
                       timeout=1800)
    for line in p.stdout.splitlines():
        if line.startswith("DIGEST"):
            return line
    return "FAILED rc=%d %s %s" % (p.returncode, p.stdout[-300:], p.stderr[-300:])


def determinism(sample=200, quick=False, props=None):
    """same seeds => same event-log digests: twice, in fresh interpreters, under another
    PYTHONHASHSEED, with 1/3/16 workers"""
    bad = 0
    props = props or _claimed()
    configs = [(16, 0), (3, 7)] if quick else [(16, 0), (16, 0), (1, 0), (3, 12345), (16, 99)]
    jobs = [(p, w, h) for p in props for (w, h) in configs]
    with ThreadPoolExecutor(max_workers=2 if quick else 3) as ex:
        res = list(ex.map(lambda j: _digest(j[0], sample, j[1], j[2], 424242), jobs))
    by = {}
    for (p, w, h), d in zip(jobs, res):
        by.setdefault(p, []).append(((w, h), d))
    for p, lst in by.items():
        ds = {d for _, d in lst}
        if len(ds) != 1 or any(d.startswith("FAILED") for d in ds):
            bad += 1
            print("DETERMINISM FAILURE %s:" % p)
            for cfg, d in lst:
                print("   workers=%d hashseed=%d -> %s" % (cfg[0], cfg[1], d))
        else:
            print("determinism %s: %d configurations x %d seeds identical (%s)" % (
                p, len(lst), sample, lst[0][1].split()[-1][:16]))
    return 2 if bad else 0


# --------------------------------------------------------------------------
def _scratch_copy():
    base = os.environ.get("VERIF_SCRATCH") or tempfile.mkdtemp(prefix="verif-scratch-")
    os.makedirs(base, exist_ok=True)
    dst = tempfile.mkdtemp(prefix="repo-", dir=base)
    for sub in ("bec2format", "appnotes"):
        shutil.copytree(os.path.join("/repo", sub), os.path.join(dst, sub),
                        ignore=shutil.ignore_patterns("__pycache__", "test_*.py"))
    return base, dst


def _run_check_on(dst, prop, tier="quick", extra=()):
    env = dict(os.environ)
    env["VERIF_REPO"] = dst
    env["VERIF_NO_EVIDENCE"] = "1"
    p = subprocess.run([sys.executable, CHECK, prop, "--tier", tier, "--no-evidence"] + list(extra),
                       capture_output=True, text=True, env=env, timeout=3600)
    return p.returncode, p.stdout + p.stderr


def _one_mutant(m):
    base, dst = _scratch_copy()
    try:
        path = os.path.join(dst, m["file"])
        src = open(path).read()
        if src.count(m["old"]) != 1:
            return m, None, "pattern occurs %d times in %s" % (src.count(m["old"]), m["file"])
        open(path, "w").write(src.replace(m["old"], m["new"]))
        rc, outp = _run_check_on(dst, m["property"])
        return m, rc, outp
    finally:
        shutil.rmtree(dst, ignore_errors=True)
        if not os.environ.get("VERIF_SCRATCH"):
            shutil.rmtree(base, ignore_errors=True)


def mutants(only=None):
    with open(os.path.join(core.VERIF_DIR, "tools", "mutants.json")) as f:
        cat = json.load(f)
    if only:
        cat = [m for m in cat if m["id"] in only or m["property"] in only]
    bad = 0
    with ThreadPoolExecutor(max_workers=2) as ex:
        for m, rc, outp in ex.map(_one_mutant, cat):
            viol = [ln for ln in (outp or "").splitlines() if ln.startswith("violation:")]
            if rc == 1:
                print("mutant %-28s %s caught: %s" % (m["id"], m["property"], viol[0][:150] if viol else ""))
            else:
                bad += 1
                print("mutant %-28s %s NOT caught (rc=%s)\n%s" % (m["id"], m["property"], rc,
                                                                  (outp or "")[-600:]))
    print("%d/%d mutants caught" % (len(cat) - bad, len(cat)))
    return 2 if bad else 0


def _one_seeded(d):
    meta = json.load(open(os.path.join(d, "meta.json")))
    base, dst = _scratch_copy()
    try:
        p = subprocess.run(["patch", "-p1", "-d", dst, "-i", os.path.join(d, "patch.diff"), "--no-backup-if-mismatch"],
                           capture_output=True, text=True)
        if p.returncode != 0:
            return d, meta, None, "patch failed: " + p.stdout + p.stderr
        res = []
        for prop in meta.get("checks", [meta["property"]]):
            rc, outp = _run_check_on(dst, prop)
            res.append((prop, rc, outp))
        return d, meta, res, ""
    finally:
        shutil.rmtree(dst, ignore_errors=True)
        if not os.environ.get("VERIF_SCRATCH"):
            shutil.rmtree(base, ignore_errors=True)


def seeded(only=None):
    dirs = sorted(glob.glob(os.path.join(core.VERIF_DIR, "seeded", "*", "meta.json")))
    dirs = [os.path.dirname(d) for d in dirs]
    if only:
        dirs = [d for d in dirs if os.path.basename(d) in only]
    bad = 0
    declared = 0
    with ThreadPoolExecutor(max_workers=2) as ex:
        for d, meta, res, err in ex.map(_one_seeded, dirs):
            name = os.path.basename(d)
            if res is None:
                bad += 1
                print("seeded %-24s ERROR %s" % (name, err))
                continue
            caught = [p for p, rc, _ in res if rc == 1]
            if caught:
                print("seeded %-24s (%s) caught by %s" % (name, meta["property"], ",".join(caught)))
            elif meta.get("not_caught_reason"):
                declared += 1
                print("seeded %-24s (%s) not caught, as declared in its meta.json: %s" % (
                    name, meta["property"], meta["not_caught_reason"][:110]))
            else:
                bad += 1
                print("seeded %-24s (%s) NOT caught: %s" % (
                    name, meta["property"], [(p, rc) for p, rc, _ in res]))
                print(res[0][2][-500:])
    print("%d/%d seeded changes caught%s" % (len(dirs) - bad - declared, len(dirs),
                                             (" (%d declared as not caught)" % declared) if declared else ""))
    return 2 if bad else 0


def main(argv):
    what = argv[0] if argv else "determinism"
    if what == "determinism":
        n = int(argv[1]) if len(argv) > 1 and argv[1].isdigit() else 200
        props = [a for a in argv[1:] if not a.isdigit()] or None
        return determinism(sample=n, props=props)
    if what == "mutants":
        return mutants(argv[1:] or None)
    if what == "seeded":
        return seeded(argv[1:] or None)
    if what == "prefix":
        return prefix(argv[1:] or None)
    if what == "refs":
        print(_ref_vs_openssl(20))
        return 0
    print("unknown selftest", what)
    return 2


def _archive_copy(rev):
    base = os.environ.get("VERIF_SCRATCH") or tempfile.mkdtemp(prefix="verif-scratch-")
    os.makedirs(base, exist_ok=True)
    dst = tempfile.mkdtemp(prefix="rev-", dir=base)
    p1 = subprocess.Popen(["git", "-C", "/repo", "archive", rev, "bec2format", "appnotes"], stdout=subprocess.PIPE)
    subprocess.check_call(["tar", "-x", "-C", dst, "--exclude=test_*.py"], stdin=p1.stdout)
    p1.wait()
    return base, dst


def _one_prefix(job):
    rev, prop = job
    base, dst = _archive_copy(rev)
    try:
        rc, outp = _run_check_on(dst, prop)
        return rev, prop, rc, outp
    finally:
        shutil.rmtree(dst, ignore_errors=True)
        if not os.environ.get("VERIF_SCRATCH"):
            shutil.rmtree(base, ignore_errors=True)


def prefix(only=None):
    """every 'fixed' finding must be reported again on the tree just before its fix commit"""
    jobs = []
    expect = {}
    for k in core.load_known():
        if k.get("status") == "fixed" and (not only or k["property"] in only or k["commit"] in only):
            j = (k["commit"] + "^", k["property"])
            if j not in jobs:
                jobs.append(j)
            expect.setdefault(j, []).append(k.get("expect") or [])
    bad = 0
    with ThreadPoolExecutor(max_workers=2) as ex:
        for rev, prop, rc, outp in ex.map(_one_prefix, jobs):
            viol = [ln for ln in outp.splitlines() if ln.startswith("violation:")]
            # every finding fixed by that commit must be among the reported violations
            ok = rc == 1 and all(any(any(e in v for v in viol) for e in exp) or not exp
                                 for exp in expect[(rev, prop)])
            if ok:
                print("before %-10s %s reports: %s" % (rev, prop, "; ".join(v[11:90] for v in viol[:4])))
            else:
                bad += 1
                print("before %-10s %s does NOT report the finding (rc=%s): %s\n%s" % (
                    rev, prop, rc, expect[(rev, prop)], "\n".join(viol[:6]) or outp[-400:]))
    print("%d/%d fixed findings are reported on the tree before their fix" % (len(jobs) - bad, len(jobs)))
    return 2 if bad else 0
