"""RefAES — AES from the FIPS-197 definitions (GF(2^8) arithmetic, affine S-box),
modes from SP 800-38A.  Written from the standards; imports nothing from /repo.
"""


def _xtime(a):
    a <<= 1
    if a & 0x100:
        a ^= 0x11B
    return a & 0xFF


def _gmul(a, b):
    r = 0
    while b:
        if b & 1:
            r ^= a
        a = _xtime(a)
        b >>= 1
    return r


def _ginv(a):
    if a == 0:
        return 0
    # a^254
    r = 1
    for _ in range(254):
        r = _gmul(r, a)
    return r


def _affine(x):
    r = 0
    for i in range(8):
        bit = ((x >> i) ^ (x >> ((i + 4) % 8)) ^ (x >> ((i + 5) % 8)) ^ (x >> ((i + 6) % 8))
               ^ (x >> ((i + 7) % 8)) ^ (0x63 >> i)) & 1
        r |= bit << i
    return r


SBOX = [_affine(_ginv(i)) for i in range(256)]
INV_SBOX = [0] * 256
for _i, _v in enumerate(SBOX):
    INV_SBOX[_v] = _i
_M2 = [_gmul(i, 2) for i in range(256)]
_M3 = [_gmul(i, 3) for i in range(256)]
_M9 = [_gmul(i, 9) for i in range(256)]
_M11 = [_gmul(i, 11) for i in range(256)]
_M13 = [_gmul(i, 13) for i in range(256)]
_M14 = [_gmul(i, 14) for i in range(256)]


def expand_key(key):
    nk = len(key) // 4
    assert nk in (4, 6, 8) and len(key) == 4 * nk
    nr = nk + 6
    w = [list(key[4 * i:4 * i + 4]) for i in range(nk)]
    rcon = 1
    for i in range(nk, 4 * (nr + 1)):
        t = list(w[i - 1])
        if i % nk == 0:
            t = t[1:] + t[:1]
            t = [SBOX[b] for b in t]
            t[0] ^= rcon
            rcon = _xtime(rcon)
        elif nk > 6 and i % nk == 4:
            t = [SBOX[b] for b in t]
        w.append([a ^ b for a, b in zip(w[i - nk], t)])
    return [sum(w[4 * r:4 * r + 4], []) for r in range(nr + 1)]


def _shift_rows(s):
    return [s[(i + 4 * (i % 4)) % 16] for i in range(16)]


def _inv_shift_rows(s):
    return [s[(i - 4 * (i % 4)) % 16] for i in range(16)]


def _mix(s):
    o = []
    for c in range(4):
        a0, a1, a2, a3 = s[4 * c:4 * c + 4]
        o += [_M2[a0] ^ _M3[a1] ^ a2 ^ a3, a0 ^ _M2[a1] ^ _M3[a2] ^ a3,
              a0 ^ a1 ^ _M2[a2] ^ _M3[a3], _M3[a0] ^ a1 ^ a2 ^ _M2[a3]]
    return o


def _inv_mix(s):
    o = []
    for c in range(4):
        a0, a1, a2, a3 = s[4 * c:4 * c + 4]
        o += [_M14[a0] ^ _M11[a1] ^ _M13[a2] ^ _M9[a3], _M9[a0] ^ _M14[a1] ^ _M11[a2] ^ _M13[a3],
              _M13[a0] ^ _M9[a1] ^ _M14[a2] ^ _M11[a3], _M11[a0] ^ _M13[a1] ^ _M9[a2] ^ _M14[a3]]
    return o


class RefAES:
    def __init__(self, key):
        self.rk = expand_key(bytes(key))
        self.nr = len(self.rk) - 1

    def enc(self, block):
        s = [a ^ b for a, b in zip(block, self.rk[0])]
        for r in range(1, self.nr):
            s = _mix(_shift_rows([SBOX[b] for b in s]))
            s = [a ^ b for a, b in zip(s, self.rk[r])]
        s = _shift_rows([SBOX[b] for b in s])
        return bytes(a ^ b for a, b in zip(s, self.rk[self.nr]))

    def dec(self, block):
        s = [a ^ b for a, b in zip(block, self.rk[self.nr])]
        for r in range(self.nr - 1, 0, -1):
            s = [INV_SBOX[b] for b in _inv_shift_rows(s)]
            s = _inv_mix([a ^ b for a, b in zip(s, self.rk[r])])
        s = [INV_SBOX[b] for b in _inv_shift_rows(s)]
        return bytes(a ^ b for a, b in zip(s, self.rk[0]))


def _xor(a, b):
    return bytes(x ^ y for x, y in zip(a, b))


def zpad(data):
    return data + bytes(-len(data) % 16)


def ecb_enc(key, data):
    a = RefAES(key)
    return b"".join(a.enc(data[i:i + 16]) for i in range(0, len(data), 16))


def ecb_dec(key, data):
    a = RefAES(key)
    return b"".join(a.dec(data[i:i + 16]) for i in range(0, len(data), 16))


def cbc_enc(key, iv, data):
    assert len(data) % 16 == 0
    a = RefAES(key)
    prev = bytes(iv)
    out = []
    for i in range(0, len(data), 16):
        prev = a.enc(_xor(data[i:i + 16], prev))
        out.append(prev)
    return b"".join(out)


def cbc_dec(key, iv, data):
    assert len(data) % 16 == 0
    a = RefAES(key)
    prev = bytes(iv)
    out = []
    for i in range(0, len(data), 16):
        c = data[i:i + 16]
        out.append(_xor(a.dec(c), prev))
        prev = c
    return b"".join(out)


def cfb_enc(key, iv, data, seg):
    """CFB-s with s = 8*seg bits; len(data) must be a multiple of seg."""
    a = RefAES(key)
    sr = bytes(iv)
    out = []
    for i in range(0, len(data), seg):
        o = a.enc(sr)
        c = _xor(data[i:i + seg], o[:seg])
        out.append(c)
        sr = sr[seg:] + c
    return b"".join(out)


def cfb_dec(key, iv, data, seg):
    a = RefAES(key)
    sr = bytes(iv)
    out = []
    for i in range(0, len(data), seg):
        o = a.enc(sr)
        c = data[i:i + seg]
        out.append(_xor(c, o[:seg]))
        sr = sr[seg:] + c
    return b"".join(out)


def ofb(key, iv, data):
    a = RefAES(key)
    o = bytes(iv)
    out = []
    for i in range(0, len(data), 16):
        o = a.enc(o)
        out.append(_xor(data[i:i + 16], o))
    return b"".join(out)


def ctr(key, counter, data):
    """counter: 128-bit integer, incremented mod 2^128 per block."""
    a = RefAES(key)
    out = []
    for i in range(0, len(data), 16):
        o = a.enc((counter % (1 << 128)).to_bytes(16, "big"))
        counter += 1
        out.append(_xor(data[i:i + 16], o))
    return b"".join(out)


def cbc_mac(key, iv, data):
    return cbc_enc(key, iv if iv is not None else bytes(16), zpad(data))[-16:]


def selftest():
    # FIPS-197 Appendix C
    pt = bytes.fromhex("00112233445566778899aabbccddeeff")
    for k, c in (
        ("000102030405060708090a0b0c0d0e0f", "69c4e0d86a7b0430d8cdb78070b4c55a"),
        ("000102030405060708090a0b0c0d0e0f1011121314151617", "dda97ca4864cdfe06eaf70a0ec0d7191"),
        ("000102030405060708090a0b0c0d0e0f101112131415161718191a1b1c1d1e1f",
         "8ea2b7ca516745bfeafc49904b496089"),
    ):
        a = RefAES(bytes.fromhex(k))
        assert a.enc(pt).hex() == c, "FIPS-197 C vector"
        assert a.dec(bytes.fromhex(c)) == pt
    # SP 800-38A F.2.1 CBC-AES128, F.3.13 CFB128, F.4.1 OFB, F.5.1 CTR, F.3.7 CFB8
    key = bytes.fromhex("2b7e151628aed2a6abf7158809cf4f3c")
    iv = bytes.fromhex("000102030405060708090a0b0c0d0e0f")
    p = bytes.fromhex("6bc1bee22e409f96e93d7e117393172aae2d8a571e03ac9c9eb76fac45af8e51")
    assert cbc_enc(key, iv, p).hex() == ("7649abac8119b246cee98e9b12e9197d"
                                         "5086cb9b507219ee95db113a917678b2")
    assert cbc_dec(key, iv, cbc_enc(key, iv, p)) == p
    assert cfb_enc(key, iv, p, 16).hex() == ("3b3fd92eb72dad20333449f8e83cfb4a"
                                             "c8a64537a0b3a93fcde3cdad9f1ce58b")
    assert cfb_enc(key, iv, p[:2], 1).hex() == "3b79"
    assert cfb_dec(key, iv, cfb_enc(key, iv, p, 4), 4) == p
    assert ofb(key, iv, p).hex() == ("3b3fd92eb72dad20333449f8e83cfb4a"
                                     "7789508d16918f03f53c52dac54ed825")
    ctr0 = int("f0f1f2f3f4f5f6f7f8f9fafbfcfdfeff", 16)
    assert ctr(key, ctr0, p).hex() == ("874d6191b620e3261bef6864990db6ce"
                                       "9806f66b7970fdff8617187bb9fffdff")
    assert ecb_enc(key, p[:16]).hex() == "3ad77bb40d7a3660a89ecaf32466ef97"
    return True
