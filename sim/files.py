"""Shared workload pieces: a *file spec* (BF3 or BEC2, JSON) is written by the
real writer onto a SimFS and read back by the real reader."""
import re

from . import gen as G
from . import prov


def file_spec(rng, kind=None, p_enc=0.0, max_len=300, p_config=0.0, allow_many=True):
    kind = kind or rng.choice(["bf3", "bf3", "bec2"])
    spec = {"kind": kind, "obj": G.bf3_spec(rng, max_comps=4, p_enc=p_enc, max_len=max_len, allow_many=allow_many),
            "via": rng.choice(["path", "stream"]), "rng": rng.getrandbits(32)}
    if rng.random() < p_config:
        spec["obj"]["config"] = G.config_spec(rng)
    if kind == "bf3":
        spec["key"] = G.session_key_spec(rng)
    else:
        spec["blocks"] = prov.blocks_spec(rng)
        spec["key"] = G.session_key_spec(rng, allow_default=rng.random() < 0.3) if rng.random() < 0.5 else None
        spec["script"] = []
        if spec["key"] is None:
            forced = prov.session_key_script(rng, spec["blocks"])
            if forced:
                spec["script"].append(["session", forced])
    return spec


class Written:
    pass


def write_file(fspec, fs, env, name, plan=None, observer=None, prebuilt=None):
    """Run the real writer.  Returns a Written record (or raises what the writer raised).
    prebuilt: a Bf3File built earlier from the same spec (a retry writes the SAME object again)."""
    w = Written()
    obj = prebuilt if prebuilt is not None else G.build_bf3(fspec["obj"], env)
    w.model = G.snapshot_bf3(obj)
    w.rng = prov.SimRng(fspec.get("rng", 0), fspec.get("script"))
    env.install_rng(w.rng)
    if observer is not None:
        observer.install()
    fs.plan[name] = plan or {}
    via = fspec.get("via", "path")
    # argument kinds the BF3 layer copes with: a key handed over as bytes or as a bytearray (the BEC2 layer
    # concatenates the key with bytes objects and needs real bytes, as its type hints say)
    as_buf = fspec.get("rng", 0) % 5 == 0
    if fspec["kind"] == "bf3":
        w.key = bytes.fromhex(fspec["key"])
        w.decryptors = {}
        w.obj = obj

        def do(target):
            obj.write_file(target, bytearray(w.key) if as_buf else w.key)
    else:
        abs_, wenc, dec = prov.build_blocks(fspec["blocks"], env, decoys=fspec.get("decoys", False))
        key = bytes.fromhex(fspec["key"]) if fspec.get("key") else None
        bec = env.bec2file.Bec2File(obj, (a for a in abs_) if fspec.get("rng", 0) % 7 == 0 else abs_, key)
        w.key = bytes(bec.session_key)
        w.decryptors = dec
        w.obj = bec
        w.wenc = wenc

        def do(target):
            bec.write_file(target, wenc)
    if via == "path":
        do(name)
    else:
        h = fs.open(name, "w", newline=None)
        w.handle = h
        try:
            do(h)
        finally:
            h.close()
    w.durable = fs.files[name]
    w.records = []
    for hh in reversed(fs.handles):
        if getattr(hh, "name", None) == name and hasattr(hh, "records"):
            w.records = list(hh.records)
            break
    return w


_HEXCLEAN = re.compile(rb"[\s,\-./:]")


def split_text(durable):
    """(header bytes incl. blank line, hex body bytes) of a written file"""
    for sep in (b"\r\n\r\n", b"\n\n"):
        if durable.startswith(sep[len(sep) // 2:]):
            return durable[:len(sep) // 2], durable[len(sep) // 2:]
    best = None
    for sep in (b"\r\n\r\n", b"\n\n"):
        j = durable.find(sep)
        if j >= 0 and (best is None or j + len(sep) < best):
            best = j + len(sep)
    if best is None:
        raise ValueError("no blank line in written file")
    return durable[:best], durable[best:]


def binary_of(durable):
    head, body = split_text(durable)
    return head, bytes.fromhex(_HEXCLEAN.sub(b"", body).decode("ascii"))


def render(head, binary, crlf):
    """text form of a (possibly damaged) binary under the unchanged comment header"""
    nl = b"\r\n" if crlf else b"\n"
    lines = [binary[p:p + 40].hex().upper().encode() + nl for p in range(0, len(binary), 40)]
    return head + b"".join(lines)


def read_file(kind, fs, env, name, via, check=True, key=None, decryptors=()):
    def do(target):
        if kind == "bf3":
            return env.bf3file.Bf3File.read_file(target, check, key)
        return env.bec2file.Bec2File.read_file(target, list(decryptors), check)
    if via == "path":
        return do(name)
    h = fs.open(name, "r")
    try:
        return do(h)
    finally:
        h.close()


def compare_read(kind, w, got, with_key=False):
    """None or (category, detail): content of a read-back vs. what was written"""
    if kind == "bf3":
        return G.compare_bf3(w.model, got)
    # the session key is bound by the MACs of the directory entries; an empty directory carries
    # no MAC at all, so for a file without components the key is not comparable content
    if got.session_key != w.key and (with_key or w.model["components"]):
        return "session-key", "session key %s != %s" % (got.session_key.hex(), w.key.hex())
    return G.compare_bf3(w.model, got.bf3file)
