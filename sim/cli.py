import argparse
import hashlib
import importlib
import os
import sys
import time

from . import core

DEFAULT_SEED = {"quick": 20260926, "thorough": 20260927}


def load_prop(pid):
    return importlib.import_module("props." + pid.lower())


def main(argv):
    if not argv:
        print(__doc__ or "usage: ./check <Cxx>|setup|selftest ...")
        return 2
    cmd = argv[0]
    if cmd == "setup":
        from . import selftest
        return selftest.setup()
    if cmd == "selftest":
        from . import selftest
        return selftest.main(argv[1:])
    ap = argparse.ArgumentParser(prog="check " + cmd)
    ap.add_argument("--tier", default=os.environ.get("VERIF_TIER", "quick"),
                    choices=["quick", "thorough"])
    ap.add_argument("--runs", type=int)
    ap.add_argument("--workers", type=int, default=int(os.environ.get("VERIF_WORKERS", "0")) or
                    min(16, os.cpu_count() or 1))
    ap.add_argument("--seed", type=int)
    ap.add_argument("--replay")
    ap.add_argument("--digest", action="store_true")
    ap.add_argument("--no-evidence", action="store_true")
    a = ap.parse_args(argv[1:])
    if a.replay:
        a.replay = os.path.abspath(a.replay)
    # run inside an empty scratch directory: file I/O of the code under test that bypasses the simulated
    # medium (a change that opens files through another API) lands there, is noticed and removed
    import atexit
    import shutil
    import tempfile
    cwd = tempfile.mkdtemp(prefix="verif-cwd-")
    os.chdir(cwd)
    atexit.register(lambda: (os.chdir("/"), shutil.rmtree(cwd, ignore_errors=True)))
    prop = load_prop(cmd)
    if a.replay:
        import json
        with open(a.replay) as f:
            need_opt = bool(json.load(f).get("python_optimize"))
        if need_opt and not sys.flags.optimize:
            # the violation was found in the pass that runs the code under test with assertions disabled
            env2 = dict(os.environ, PYTHONOPTIMIZE="1")
            os.execve(sys.executable, [sys.executable, os.path.join(core.VERIF_DIR, "check"), cmd, "--replay", a.replay],
                      env2)
        return core.replay(prop, a.replay)
    seed = a.seed
    if seed is None:
        seed = int(os.environ.get("VERIF_SEED") or DEFAULT_SEED[a.tier])
    runs = a.runs or prop.RUNS[a.tier]
    print("check %s tier=%s VERIF_SEED=%d runs=%d workers=%d repo=%s" % (
        prop.ID, a.tier, seed, runs, a.workers, core.REPO))
    t0 = time.time()
    pre = getattr(prop, "prepare", None)
    if pre:
        pre(a.tier)
    total = core.run_batch(prop, a.tier, seed, runs, a.workers, want_digests=a.digest)
    wall = time.time() - t0
    if a.digest:
        h = hashlib.sha256(repr(total["ordered"]).encode()).hexdigest()
        print("DIGEST %s runs=%d %s" % (prop.ID, total["runs"], h))
        if total["infra"]:
            for e in total["infra"][:5]:
                print("INFRA: " + e)
            return 2
        return 0
    stray = sorted(os.listdir(cwd))
    if stray:
        total["infra"].append("the code under test created real files outside the simulated medium: %s" % stray[:5])
    # second pass with assertions disabled (python -O): a configuration users do run; only for properties
    # that ask for it, never recursively
    sub_rc = 0
    opt_runs = getattr(prop, "OPTIMIZED_PASS", {}).get(a.tier) if not a.runs else None
    if opt_runs and not sys.flags.optimize and not os.environ.get("VERIF_SUBPASS"):
        import subprocess
        env2 = dict(os.environ, PYTHONOPTIMIZE="1", VERIF_SUBPASS="1", VERIF_NO_EVIDENCE="1")
        r = subprocess.run([sys.executable, os.path.join(core.VERIF_DIR, "check"), cmd, "--tier", a.tier, "--runs",
                            str(opt_runs), "--seed", str(seed + 1), "--no-evidence", "--workers", str(a.workers)],
                           capture_output=True, text=True, env=env2, timeout=3600)
        sub_rc = r.returncode
        for ln in r.stdout.splitlines():
            if ln.startswith(("violation:", "  ", "VIOLATION", "KNOWN-FINDING", "INFRA")):
                print(("[python -O pass] " if not ln.startswith(("VIOLATION", "KNOWN-FINDING")) else "") + ln)
        total["probes"]["runs-with-assertions-disabled"] += opt_runs
        total["fired"]["python-O-pass"] += 1
        if sub_rc == 2:
            total["infra"].append("python -O pass ended with an infrastructure error: " + r.stdout[-300:])
    write_ev = not a.no_evidence and os.path.realpath(core.REPO) == "/repo"
    rc = core.finish(prop, a.tier, seed, total, wall, a.workers, write_evidence=write_ev)
    if sub_rc == 1:
        rc = 1
    print("%s: %d runs (%d evaluations, %d distinct non-trivial) in %.1fs; faults fired: %s; exit %d"
          % (prop.ID, total["runs"], total["evals"], len(total["nt_digests"]), wall,
             dict(total["fired"]), rc))
    return rc
