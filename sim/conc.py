"""Concurrent callers of the library under the deterministic scheduler (E-sched applied to
bec2format / the plug-in / pyaes): two or three simulated threads run ordinary library
operations on their own objects (or on a deliberately shared peer object) while the
simulator decides every thread switch at line events of the code under test.
Used by the concurrent arms of C01, C04, C06 and C09."""
import glob
import os

from . import env, sched

_KEY = {}


def _files(with_ecdsa):
    base = os.path.dirname(env.bec2format.__file__)
    fl = sorted(glob.glob(os.path.join(base, "*.py")))
    pdir = os.path.dirname(env.plugin.__file__)
    fl += [os.path.join(pdir, "__init__.py")] + sorted(glob.glob(os.path.join(pdir, "pyaes", "*.py")))
    if with_ecdsa:
        fl += [os.path.join(pdir, "ecdsa", n) for n in ("ellipticcurve.py", "numbertheory.py", "keys.py",
                                                        "ecdsa.py", "ecdh.py", "util.py", "der.py", "curves.py")]
    return fl


def configure(with_ecdsa=False):
    mode = "conc-ecdsa" if with_ecdsa else "conc"
    mon = sched.Monitor.get()
    if mode not in _KEY:
        _KEY[mode] = sched.code_objects_of(_files(with_ecdsa))
    mon.configure(_KEY[mode], [], key=mode)


def resolve(preempt, horizon, dry):
    out = []
    for p in preempt:
        if p[0] == "abs":
            out.append(int(p[1]))
        elif p[0] == "frac":
            out.append(1 + int(p[1] * horizon))
        elif p[0] == "local":
            out.append(("local", int(p[1]), int(p[2])))
        elif p[0] == "localfrac":
            n = max(1, dry.threads[int(p[1])].steps)
            out.append(("local", int(p[1]), 1 + int(p[2] * n)))
        elif p[0] == "shallow":
            # a step of that thread at which it executes a line of the API layer (plug-in, bec2format,
            # key-agreement wrapper) rather than deep arithmetic: where shared state is handed over
            cand = [st for tid, st in dry.shallow_steps if tid == int(p[1])]
            if cand:
                out.append(("local", int(p[1]), cand[int(p[2] * len(cand)) % len(cand)]))
    return out


def shallow_files():
    base = os.path.dirname(env.bec2format.__file__)
    pdir = os.path.dirname(env.plugin.__file__)
    return set(glob.glob(os.path.join(base, "*.py"))) | {os.path.join(pdir, "__init__.py"),
                                                          os.path.join(pdir, "ecdsa", "ecdh.py"),
                                                          os.path.join(pdir, "ecdsa", "curves.py")}


def plugin_files():
    """only the adapter layer between bec2format and the crypto libraries (the registered plug-in)"""
    return {os.path.join(os.path.dirname(env.plugin.__file__), "__init__.py")}


def run_conc(make_bodies, preempt, choices, with_ecdsa=False, first=None, max_steps=60_000_000, shallow=None):
    """make_bodies(sched) -> list of zero-argument callables on FRESH objects.
    Returns (dry, conc, resolved pre-emptions): the same programs run one after another, then interleaved."""
    configure(with_ecdsa)

    def build(pre, ch, cap=max_steps):
        s = sched.Sched(preempt=[p for p in pre if isinstance(p, int)], choices=ch, max_steps=cap)
        s.preempt_local = {(p[1], p[2]) for p in pre if not isinstance(p, int)}
        for fn in make_bodies(s):
            s.spawn(fn)
        return s
    env.restore_registry()
    dry = build([], [])
    dry.shallow_files = shallow_files() if shallow is None else shallow
    dry.run(first=0)
    env.restore_registry()
    pre = resolve(preempt, max(dry.step, 1), dry)
    # interleaving the same programs cannot need more steps than running them one after another (plus slack
    # for retries): the cap is relative to the measured sequential run, never an absolute number
    conc = build(pre, choices, 4 * dry.step + 100_000)
    conc.run(first=first)
    return dry, conc, pre


def sched_spec(r):
    """one pre-emption inside the first thread's own steps (so that it is certainly interrupted while the
    others have not started) plus 0-3 more placed uniformly over the whole run"""
    d = r.choice([0, 1, 1, 2, 3])
    x = r.random()
    k = r.random()
    if k < 0.2:
        first = ["shallow", 0, x]                      # at an API-level line of the first thread
    elif k < 0.35:
        first = ["local", 0, 1 + int(x * 60)]          # right at the start (first use of fresh state)
    elif k < 0.5:
        first = ["localfrac", 0, 1.0 - x ** 3 * 0.2]   # near the end
    else:
        first = ["localfrac", 0, x]
    return ([first] + [["frac", r.random()] for _ in range(d)], [r.randrange(1000) for _ in range(16)])
