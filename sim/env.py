"""Imports the code under test from the current working tree of VERIF_REPO
(default /repo) and owns the process-global seams (plug-in registries).

The plug-in is imported exactly once, under the name `register_crypto_plugin`
(as the appnotes do), with sys.path = [REPO, REPO/appnotes, ...].
"""
import os
import sys

REPO = os.environ.get("VERIF_REPO", "/repo")

sys.dont_write_bytecode = True
for p in (os.path.join(REPO, "appnotes"), REPO):
    if p not in sys.path:
        sys.path.insert(0, p)

import bec2format  # noqa: E402
import bec2format.bec2file as bec2file  # noqa: E402
import bec2format.bf3file as bf3file  # noqa: E402
import bec2format.crypto as crypto  # noqa: E402
import bec2format.error as error  # noqa: E402
import bec2format.configid as configid  # noqa: E402
import bec2format.bytes_reader as bytes_reader  # noqa: E402
import register_crypto_plugin as plugin  # noqa: E402

assert "appnotes.register_crypto_plugin" not in sys.modules
assert os.path.realpath(bec2format.__file__).startswith(os.path.realpath(REPO)), bec2format.__file__
assert os.path.realpath(plugin.__file__).startswith(os.path.realpath(REPO)), plugin.__file__

ecdsa = plugin.ecdsa
pyaes = plugin.pyaes

REAL_AES = plugin.AES128Proxy
REAL_PUB = plugin.PublicEccKeyProxy
REAL_PRIV = plugin.PrivateEccKeyProxy
REAL_RANDOM = plugin.random_bytes
_REAL_OS = plugin.os


def registry_names():
    """Identity snapshot of the process-global crypto registry (name-mangled
    module globals of bec2format.crypto)."""
    d = crypto.__dict__
    return tuple((k, id(d[k])) for k in sorted(d) if k.startswith("__") and not k.endswith("__"))


def restore_registry():
    crypto.register_AES128(REAL_AES)
    crypto.register_PublicEccKey(REAL_PUB)
    crypto.register_PrivateEccKey(REAL_PRIV)
    crypto.register_random_bytes(REAL_RANDOM)
    plugin.os = _REAL_OS
    ecdsa.util.os = os
    ecdsa.keys.os = os
    bf3file.__dict__.pop("open", None)
    if isinstance(bf3file.__dict__.get("os"), _FsOsMarker):
        bf3file.__dict__.pop("os", None) if not _BF3_HAD_OS else setattr(bf3file, "os", os)


class _FsOsMarker:
    """wraps a SimFS os shim so that restore_registry can recognise and remove it"""

    def __init__(self, shim):
        self._shim = shim

    def __getattr__(self, name):
        return getattr(self._shim, name)


_BF3_HAD_OS = "os" in bf3file.__dict__


def use_fs(fs):
    """point the file seams of bec2format.bf3file at a SimFS: builtins.open and (when the module uses it) os"""
    bf3file.open = fs.open
    bf3file.os = _FsOsMarker(fs.os_shim())


class OsShim:
    """Stands in for the `os` module where the code under test calls
    os.urandom (plug-in RNG, ecdsa.util.randrange)."""

    def __init__(self, urandom):
        self.urandom = urandom

    def __getattr__(self, name):
        return getattr(os, name)


def install_rng(fn):
    """Route every RNG draw of the library through fn(nbytes, site).  The seam is os.urandom (in the plug-in
    and in ecdsa): the plug-in's registered random_bytes stays real code under test."""
    crypto.register_random_bytes(REAL_RANDOM)
    shim = OsShim(lambda n: fn(n, "ecc"))
    plugin.os = OsShim(lambda n: fn(n, "session"))
    ecdsa.util.os = shim
    ecdsa.keys.os = shim


# --------------------------------------------------------------------------
# clean slate between runs: module-level and class-level state of the code under test is put back
# to what it was right after import, so that no run depends on what an earlier run of the same
# worker process left behind (a run must replay in a fresh interpreter).  Objects such as the curve
# generators with their lazily built tables are deliberately left alone.
# --------------------------------------------------------------------------
import copy as _copy
import types as _types

_SIMPLE = (int, float, str, bytes, bool, type(None), tuple, frozenset)
_CONT = (dict, list, set, bytearray)
_SNAP = []   # (owner, name, kind, original)


def _owners():
    mods = [m for n, m in sorted(sys.modules.items())
            if m is not None and (n == "bec2format" or n.startswith("bec2format.")
                                  or n == "register_crypto_plugin" or n.startswith("register_crypto_plugin."))
            and ".test_" not in n]
    out = []
    for m in mods:
        out.append(m)
        for v in list(vars(m).values()):
            if isinstance(v, type) and getattr(v, "__module__", None) == m.__name__:
                out.append(v)
    return out


def _take_snapshot():
    for o in _owners():
        for name, v in list(vars(o).items()):
            if name.startswith("__") and name.endswith("__"):
                continue
            if isinstance(v, _CONT):
                try:
                    _SNAP.append((o, name, "cont", (v, _copy.deepcopy(v))))
                except Exception:
                    pass
            elif isinstance(v, _SIMPLE):
                _SNAP.append((o, name, "simple", v))
            else:
                # mutable default arguments of the library's functions are process-global state too
                fn = getattr(v, "__func__", v)
                if isinstance(fn, _types.FunctionType):
                    dv = list(fn.__defaults__ or ()) + list((fn.__kwdefaults__ or {}).values())
                    for i, d in enumerate(dv):
                        if isinstance(d, _CONT):
                            try:
                                _SNAP.append((fn, "%s(default %d)" % (fn.__qualname__, i), "defcont",
                                              (d, _copy.deepcopy(d))))
                            except Exception:
                                pass
    _SNAP.append((None, "names", "names", {id(o): set(vars(o)) for o in _owners()}))


def reset_globals():
    """returns the list of names that had to be put back (for diagnostics)"""
    changed = []
    for o, name, kind, orig in _SNAP:
        if kind == "names":
            for ow in _owners():
                base = orig.get(id(ow))
                if base is None:
                    continue
                for extra in set(vars(ow)) - base:
                    v = vars(ow)[extra]
                    if extra in ("open", "os") or isinstance(v, (_types.FunctionType, type, _types.ModuleType)):
                        continue
                    try:
                        delattr(ow, extra)
                        changed.append("%s.%s (new)" % (getattr(ow, "__name__", ow), extra))
                    except Exception:
                        pass
            continue
        if kind == "defcont":
            obj, saved = orig
            if obj != saved:
                changed.append(name)
                if isinstance(obj, dict):
                    obj.clear()
                    obj.update(_copy.deepcopy(saved))
                elif isinstance(obj, set):
                    obj.clear()
                    obj.update(saved)
                else:
                    obj[:] = _copy.deepcopy(saved)
            continue
        cur = vars(o).get(name, None)
        if kind == "cont":
            obj, saved = orig
            if cur is not obj:
                try:
                    setattr(o, name, obj)
                except Exception:
                    pass
                changed.append("%s.%s (rebound)" % (getattr(o, "__name__", o), name))
            if obj != saved:
                changed.append("%s.%s" % (getattr(o, "__name__", o), name))
                if isinstance(obj, dict):
                    obj.clear()
                    obj.update(_copy.deepcopy(saved))
                elif isinstance(obj, set):
                    obj.clear()
                    obj.update(saved)
                else:
                    obj[:] = _copy.deepcopy(saved)
        else:
            if cur is not orig and cur != orig:
                try:
                    setattr(o, name, orig)
                    changed.append("%s.%s" % (getattr(o, "__name__", o), name))
                except Exception:
                    pass
    return changed


_take_snapshot()
_restore_registry_only = restore_registry


def restore_registry():  # noqa: F811
    _restore_registry_only()
    reset_globals()
