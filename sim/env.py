"""Imports the code under test from the current working tree of VERIF_REPO
(default /repo) and owns the process-global seams (plug-in registries).

The plug-in is imported exactly once, under the name `register_crypto_plugin`
(as the appnotes do), with sys.path = [REPO, REPO/appnotes, ...].
"""
import os
import sys

REPO = os.environ.get("VERIF_REPO", "/repo")

sys.dont_write_bytecode = True
for p in (os.path.join(REPO, "appnotes"), REPO):
    if p not in sys.path:
        sys.path.insert(0, p)

import bec2format  # noqa: E402
import bec2format.bec2file as bec2file  # noqa: E402
import bec2format.bf3file as bf3file  # noqa: E402
import bec2format.crypto as crypto  # noqa: E402
import bec2format.error as error  # noqa: E402
import bec2format.configid as configid  # noqa: E402
import bec2format.bytes_reader as bytes_reader  # noqa: E402
import register_crypto_plugin as plugin  # noqa: E402

assert "appnotes.register_crypto_plugin" not in sys.modules
assert os.path.realpath(bec2format.__file__).startswith(os.path.realpath(REPO)), bec2format.__file__
assert os.path.realpath(plugin.__file__).startswith(os.path.realpath(REPO)), plugin.__file__

ecdsa = plugin.ecdsa
pyaes = plugin.pyaes

REAL_AES = plugin.AES128Proxy
REAL_PUB = plugin.PublicEccKeyProxy
REAL_PRIV = plugin.PrivateEccKeyProxy
REAL_RANDOM = plugin.random_bytes
_REAL_OS = plugin.os


def registry_names():
    """Identity snapshot of the process-global crypto registry (name-mangled
    module globals of bec2format.crypto)."""
    d = crypto.__dict__
    return tuple((k, id(d[k])) for k in sorted(d) if k.startswith("__") and not k.endswith("__"))


def restore_registry():
    crypto.register_AES128(REAL_AES)
    crypto.register_PublicEccKey(REAL_PUB)
    crypto.register_PrivateEccKey(REAL_PRIV)
    crypto.register_random_bytes(REAL_RANDOM)
    plugin.os = _REAL_OS
    ecdsa.util.os = os
    ecdsa.keys.os = os
    bf3file.__dict__.pop("open", None)


class OsShim:
    """Stands in for the `os` module where the code under test calls
    os.urandom (plug-in RNG, ecdsa.util.randrange)."""

    def __init__(self, urandom):
        self.urandom = urandom

    def __getattr__(self, name):
        return getattr(os, name)


def install_rng(fn):
    """Route every RNG draw of the library through fn(nbytes, site)."""
    crypto.register_random_bytes(lambda n: fn(n, "session"))
    shim = OsShim(lambda n: fn(n, "ecc"))
    plugin.os = OsShim(lambda n: fn(n, "session"))
    ecdsa.util.os = shim
    ecdsa.keys.os = shim
