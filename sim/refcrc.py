"""RefCRC — bit-serial CRC-16, reflected polynomial 0x8408, init 0xFFFF, no final XOR
(CRC-16/MCRF4XX).  Written from the definition; imports nothing from /repo."""


def crc16(data, start=0xFFFF):
    crc = start & 0xFFFF
    for byte in data:
        crc ^= byte
        for _ in range(8):
            if crc & 1:
                crc = (crc >> 1) ^ 0x8408
            else:
                crc >>= 1
    return crc


def selftest():
    assert crc16(b"123456789") == 0x6F91
    return True
